"""Per-property configuration of the coordinator (/verif/check)."""

HOOK_ASSUMPTION = "library built from /repo's working tree with --cfg simple_sds_verif (bounds monitor on the unchecked accesses; additive, does not change results)"
MODEL_ASSUMPTION = "the reference models in harness/vcore/src/model.rs (validated at worker start-up against a brute-force Vec<bool> model for all bit strings of length <= 9)"

PROPS = {
    "C01": dict(
        driver="c01", builds=["rel", "dbg", "native"], level="exploration",
        rule="E-input: (1) every bit sequence of length 0..=N; (2) every word up to depth d over a 21-letter regime alphabet "
             "(runs of 1/63/64/4095/4096/4097/8192/90000 ones, 1/63/511/4096/90000/140000 zeros, periodic patterns and their complements); "
             "(3) length sweep around 64/512/4096/65536/83521/131072 x 6 fills. Each vector is built from a raw vector (all queries: every position and rank "
             "for families 1,3; run/word/block edges +-1 and EVERY rank for family 2; plus the out-of-range set A(.)) and must equal the vectors built by "
             "FromIterator<bool>, copy_bit_vec and From<SparseVector/RLVector> in every answer; raw vectors reached by push/pop histories (pop_bit and pop_int routes that leave stale words behind the length) and by resize up with set bits and back down (within the last word, and across words) "
             "must give the same answers as well, and so must vectors whose support structures were enabled in other orders (enable_rank, enable_pred_succ, enable_select_zero; enable_select_zero, enable_pred_succ, enable_select, enable_rank). A case is non-trivial when it has both set and unset bits; distinct = distinct bit sequences (hashed case keys).",
        bounds={"quick": "N=14, d=2 (462 words), sweep 984 cases", "thorough": "N=18, d=3 (9723 words) + depth 4 over 8 letters (4096 words), sweep 1116 cases"},
        require_counters={"quick": {"vectors_with_long_superblock(ones)": 1, "vectors_with_long_superblock(zeros)": 1, "vectors_with_long_and_short(ones)": 1},
                          "thorough": {"vectors_with_long_superblock(ones)": 1, "vectors_with_long_superblock(zeros)": 1, "vectors_with_several_long(ones)": 1}},
        assumptions=[HOOK_ASSUMPTION, MODEL_ASSUMPTION, "bitvectors longer than ~330 000 bits are outside the explored space"],
    ),
}

C08_DRIVERS = []

# Texts for MANIFEST.json (gen_manifest.py).
NOT_APPLICABLE = {}
MANIFEST_TEXT = {
    "C01": dict(engine="E-input", design_ref="DESIGN.md §4 C01",
        technique="bounded exhaustive input enumeration on the real code (small-scope + regime-alphabet words) against a reference model",
        level_text="Every bit sequence up to length 14/18 and every word up to depth 2/3(+4) over a regime alphabet that reaches long and short select superblocks for ones and zeros, "
                   "multi-block rank samples and partial last words; every query argument in the stated sets; three build configurations (portable select, BMI2, overflow checks on). "
                   "A coverage statement over that space, not a proof for all inputs.",
        level_note="Trusts the reference model (self-checked against brute force) and rustc; vectors beyond ~330k bits are not explored."),
}

PROPS["C05"] = dict(
    driver="c05", builds=["rel", "dbg"], level="model_checking",
    rule="E-hist: breadth-first search over operation histories on the real RawVector / IntVector from several initial states (new, with_capacity, with_len at word boundaries -1/0/+1, "
         "default, From<Vec<T>>/FromIterator<T> for the five item types; with_len fill values wider than the item width, incl. values whose only set bit is just above it). Actions take their parameters relative to the current length (push_bit, push_int at widths 1/7/63/64/exact-fill/fill+1, "
         "pop_bit, pop_int incl. wider than the content, set_bit, set_int incl. word-straddling, resize up/down across word boundaries, clear, reserve, complement; push/pop/set/resize/clear/reserve/pack/extend "
         "with values wider than the item width). After every transition: return value, len/width, every bit/item, iterators, and the canonical-state oracle (== a freshly built vector, identical bytes, same count of set bits). "
         "States are deduplicated on the real object's full representation (len, width, words); a state is non-trivial/distinct when its representation was not seen before in the same BFS.",
    bounds={"quick": "depth 4, reduced value alphabet, 12 raw + 79 int initial states (10 widths)", "thorough": "depth 4 full alphabet + depth 5 reduced alphabet (+ raw depth 5 with the all-ones value, int depth 6 at widths 1/7/8/33/63/64), 12 raw + 459 int initial states (all 64 widths)"},
    xcheck={"thorough": {"bin": "c05x", "args": [4]}},
    assumptions=[HOOK_ASSUMPTION, "thorough: the RawVector model (same initial states, alphabet, transition function on the real vector, oracle) is also explored by stateright's BFS checker to depth 4; unique-state counts of the two engines must agree (cross_engine_stateright in the evidence)", "states reachable from several initial states are counted once per initial state (each BFS has its own seen-set)", "set_bit/set_int beyond len and capacity values are not part of the property and not checked"],
)
MANIFEST_TEXT["C05"] = dict(engine="E-hist", design_ref="DESIGN.md §4 C05",
    technique="explicit-state breadth-first exploration of operation histories on the real vectors with a reference-model and canonical-state oracle after every transition",
    level_text="All operation sequences up to depth 4 (5 in thorough with the reduced alphabet) from 91/471 initial states, every transition executed on the real object and compared with a Vec<bool>/Vec<u64> reference; "
               "states deduplicated on the concrete representation so stale bits create new states and are flagged immediately.",
    level_note="Histories longer than the bound, and value patterns outside the alphabet, are not explored.")

PROPS["C02"] = dict(
    driver="c02", builds=["rel", "dbg"], level="exploration",
    rule="E-input: (a) every subset of every universe n <= N; (b) every low-part width 1..=63 (universe 1.5*m*2^w for m in {1,2,3,17,40}) x four layouts (packed at the start, packed at the end incl. n-1, "
         "evenly spread, straddling every bucket boundary 2^w*k-1 / 2^w*k), plus universes usize::MAX, usize::MAX-1, 2^63, 2^63+1 with 1-3 positions; (c) run-structured sets: every word up to depth d over "
         "28 (gap, run) letters (the select_zero binary search needs > 16 ones); (d) empty vectors up to 2^20 / 2^26 and full vectors up to 4096; (e) large clustered sets (tens of thousands of ones in few buckets, so that the high part has long select superblocks). "
         "Built with try_set; set / extend / copy_bit_vec / From<BitVector> routes must answer every query identically. All ten operations at every position and rank (a, c, small d) or at member/bucket edges +-1 and A(.) (b, large d). Non-trivial = has set and unset bits; distinct by hashed case key.",
    bounds={"quick": "N=12, d=3", "thorough": "N=15, d=4"},
    require_counters={"quick": {"cases_entering_select_zero_binary_search": 100}, "thorough": {"cases_entering_select_zero_binary_search": 100}},
    # Non-vacuity on the regime actually reached, not on the library's current parameter rule: any admissible rule that
    # follows log2(n/m) reaches (nearly) every low width with the width-directed family.
    require_sets={"quick": {"low_widths_seen": 56}, "thorough": {"low_widths_seen": 56}},
    assumptions=[HOOK_ASSUMPTION, MODEL_ASSUMPTION, "m = 0 beyond 2^26 and full vectors beyond 4096 are not explored (memory)"],
)
MANIFEST_TEXT["C02"] = dict(engine="E-input", design_ref="DESIGN.md §4 C02",
    technique="bounded exhaustive input enumeration on the real code (all subsets of small universes, every low width 1..63, run-structured sets) against a reference model",
    level_text="Every subset of every universe up to 12/15 elements, every low-part width the parameter rule can choose (all 63 observed in the written files), positions at the first and last element of universes up to usize::MAX, "
               "and every run-structured word up to depth 3/4 so that the select_zero binary search is entered; all ten operations at every argument in the stated sets.",
    level_note="Trusts the reference model; dense vectors with millions of ones and empty vectors beyond 2^26 are not explored.")

PROPS["C03"] = dict(
    driver="c03", builds=["rel", "dbg"], level="exploration",
    rule="E-input: (1) every bit sequence of length <= N as a run list; (2) every run list of <= 2 runs (thorough: <= 3) over (gap, length) magnitudes from 1 to 2^63 (1..22 code units), first gap also 0, "
         "trailing zeros in {0, 1, 2^61}, total length capped at usize::MAX; (3) block-shape families: k tiny runs + one big run + k tiny runs (1, 8, 9, many blocks; blocks closed early) and a first block without unset bits "
         "followed by 2..20 more blocks, k up to 600 with long tails; (4) every fill level 0..66 of a block (tiny runs) in front of the widest runs the encoding allows (gap 2^63, length 2^60+1), then two more runs; (5) lengths at the documented maximum: usize::MAX - slack for slack 0..40 with 1..20 blocks and a final run or trailing zeros up to the very end. "
         "Built run by run; per-bit, split-run, set_len-before-every-run and copy_bit_vec routes must answer identically. All ten operations at run edges, block-sample edges (read from the "
         "file by the independent codec) +-1, a uniform grid over the length, the midpoints of gaps and runs, and A(.); run_iter must yield exactly the maximal runs with running offset/rank/rank_zero. Non-trivial = at least one run; distinct by hashed case key.",
    bounds={"quick": "N=12; <=2 runs over 8 magnitudes x 3 tails; 450 block shapes", "thorough": "N=13; <=2 runs over 19 magnitudes and <=3 runs over 10 magnitudes x 3 tails; 1500 block shapes"},
    require_counters={"quick": {"vectors_with_9_or_more_blocks": 10, "vectors_longer_than_2^63": 100}, "thorough": {"vectors_with_9_or_more_blocks": 10, "vectors_longer_than_2^63": 100}},
    assumptions=[HOOK_ASSUMPTION, MODEL_ASSUMPTION, "more than ~1300 runs per vector, and run lists longer than 3 with 2^60-scale magnitudes, are not explored"],
)
MANIFEST_TEXT["C03"] = dict(engine="E-input", design_ref="DESIGN.md §4 C03",
    technique="bounded exhaustive input enumeration on the real code (run lists over a magnitude alphabet 1..2^63, block-shape families, all small bit strings) against a run-list reference model in u128",
    level_text="Every run list of up to 2 (3) runs over magnitudes 1..2^63 with total length up to usize::MAX, block-shape families reaching 1/8/9/many blocks, early-closed blocks and a first block without unset bits, "
               "and every bit string up to 10/13 bits; all ten operations plus run_iter at every structural edge.",
    level_note="Trusts the reference model; vectors with more than ~1300 runs are not explored.")

PROPS["C04"] = dict(
    driver="c04", builds=["rel", "dbg"], level="exploration",
    rule="E-input: (a) every vector of length 0..=L over the full alphabet 0..2^w for small (w, L); (b) every vector of length <= 4 (<= 2 for the widest) over the sparse alphabet {0, 1, 2^(k-1)-1, 2^(k-1), 2^k-1} for k up to 16, and the same five-letter alphabet at widths 17..26 with vectors of <= 3 (<= 1 at the widest) values; "
         "each built from Vec<u64>, from every narrower item type that can hold the values (u8/u16/u32/usize) and by serialize + load, which must all answer identically. Queries: len, width, get, iter, into_iter, "
         "inverse_select at every index <= len+1 and A(len); for every value of the alphabet (or the present values and their neighbours) plus max+1, 2^w, 2^w+1, 2^63, u64::MAX: contains, iter() / into_iter() entered by nth(k) for k in {0, n-1, n, n+1} (item, remaining length, the rest), value_iter (collected, and reached by nth(k) for k around the number of occurrences, after which the iterator must stay exhausted), rank / predecessor / successor at every "
         "index, select / select_iter at every rank <= count+1 and A(.); core: map_down, map_down_with, map_down_with_two_positions, map_up_with against the stable sort by reversed bit representation. "
         "Non-trivial = at least two distinct values; distinct by hashed vector.",
    bounds={"quick": "(w,L) in (1,8) (2,5) (3,4) (4,3); k <= 8 at depth 4, k in {12,16} at depth 2", "thorough": "(w,L) in (1,13) (2,8) (3,5) (4,5) (5,3); k <= 16 at depth 4"},
    require_counters={"quick": {"vectors_with_missing_alphabet_values": 100}, "thorough": {"vectors_with_missing_alphabet_values": 100}},
    assumptions=[HOOK_ASSUMPTION, "reference = Vec<u64> with linear scans", "widths above 26 (the per-value table has max+1 entries), dense alphabets above width 5 and vectors longer than 13 are not explored"],
)
MANIFEST_TEXT["C04"] = dict(engine="E-input", design_ref="DESIGN.md §4 C04",
    technique="bounded exhaustive input enumeration on the real code (all vectors over small alphabets, sparse alphabets up to width 16, five item types) against a Vec<u64> reference",
    level_text="Every vector up to the stated (width, length) scopes and every short vector over sparse alphabets up to width 16, through all five item types, with every (index, rank, value) argument incl. absent and out-of-alphabet values; "
               "the core mapping is compared with the stable sort by reversed bit representation.",
    level_note="Trusts the naive reference; long vectors and dense wide alphabets are not explored.")

PROPS["C06"] = dict(
    driver="c06", builds=["rel", "dbg"], level="exploration",
    rule="E-input: a catalogue of values of every Serialize type (u64, usize, pairs, vectors of them, byte vectors of every length 0..17, ASCII and multi-byte strings, Option and Option<Option<>> of several types incl. Option<SparseVector|RLVector|WaveletMatrix>, "
         "RawVector, IntVector at many widths, BitVector with each of the 8 support subsets, SparseVector (sets and multisets), RLVector with 1/8/9/many blocks, WMCore, WaveletMatrix, RankSupport, SelectSupport) plus every "
         "BitVector / SparseVector / RLVector of <= N bits. For each x: bytes written == 8*size_in_elements == size_in_bytes; load consumes exactly those bytes, equals x, re-serializes identically and answers the query sets of C01-C04; "
         "the catalogue includes a 64-level WMCore and run-length vectors whose final block holds 61..65 code units; also through 1/3/7/8/9-byte short-read readers and 1/3/7-byte short-write sinks; size_by_params for Raw/IntVector over boundary (capacity, width) sets; every wavelet matrix and core of small scopes (levels whose supports differ in size); values of many megabytes around the piece sizes a loader might use (2^17+3 and 2^20+3 elements, 2^16+1 and 2^20+1 pairs, 2^20+5 and 2^23+1 bytes, 2^21 37-bit items, a bitvector of 2^26+70 bits with all supports); plain bitvectors obtained by conversion from every multiset sparse vector over universes <= 3 with <= 2u+1 values (duplicates, overfull), with and without supports. Every ordered pair (thorough: every triple over 24 values) "
         "written back to back loads in sequence with the reader ending exactly at the end. Non-trivial = more than one element; distinct by hashed descriptor / descriptor tuple.",
    bounds={"quick": "158-value catalogue, N=12, 24 964 pairs", "thorough": "extended catalogue (all widths, all byte lengths, multi-superblock vectors), N=18, all pairs, 46 656 triples"},
    assumptions=[HOOK_ASSUMPTION, MODEL_ASSUMPTION],
)
MANIFEST_TEXT["C06"] = dict(engine="E-input", design_ref="DESIGN.md §4 C06",
    technique="bounded exhaustive enumeration over a catalogue of all Serialize types, all pairs/triples of concatenations and all small bitvectors, with short-read/short-write environment answers",
    level_text="Round trip, exact sizes, exact consumption, query equivalence of the loaded copy, and every ordered pair (triple) of catalogue values in one stream; readers and sinks that answer with 1..9-byte chunks.",
    level_note="Values outside the catalogue and the small scope are not explored.")

PROPS["C17"] = dict(
    driver="c17", builds=["rel", "native", "dbg"], level="exploration",
    rule="E-input: write_int/read_int at every (offset 0..=191, width 1..=64) on a 4-word array x value alphabet x background alphabet (whole array compared bit by bit with a reference; single-word and straddling branch); "
         "bits::select for EVERY rank < popcount over every word with <= 4 (thorough 5) set bits, every byte value at every byte position over four background fills, their complements, shifted runs and the seed pattern "
         "(covers every entry of the in-byte table and every prefix-sum case); low_set/high_set (+unchecked) for all n in 0..=64; bit_len, reverse_low (all widths), rounding helpers, split/bit_offset, div_round_up over boundary sets "
         "inside their documented domains, compared with u128 arithmetic. Run in builds without BMI2 (portable table), with BMI2 (PDEP) and with overflow checks. Non-trivial: non-zero background or straddling field; every (word, rank) pair.",
    bounds={"quick": "8 values x 4 backgrounds; 1 364 078 select words (every word with <= 4 set bits)", "thorough": "136 values x 6 backgrounds; 16 612 202 select words (every word with <= 5 set bits), 531 588 815 (word, rank) pairs"},
    assumptions=[HOOK_ASSUMPTION, "select on words outside the structured families is not explored (the function is branch-free; the families cover every table entry and byte position)"],
)
MANIFEST_TEXT["C17"] = dict(engine="E-input", design_ref="DESIGN.md §4 C17",
    technique="exhaustive enumeration of (offset, width, value, background) and of (word, rank) over structured word families, in three build configurations (portable select, BMI2, overflow checks)",
    level_text="All 12 288 fields x value/background alphabets with whole-array comparison; every rank of ~10^5 (10^6) structured words on both select implementations; all helper domains at their boundaries.",
    level_note="Reference answers are computed bit by bit in the driver; words outside the families are not explored.")

PROPS["C16"] = dict(
    driver="c16", builds=["rel", "dbg"], level="model_checking",
    rule="E-hist: breadth-first search over call sequences on the real builders. SparseBuilder: 60 parameter sets (universe in {0,1,2,5,8,70} x capacity 0..4 x set/multiset) plus huge universes (2^63, usize::MAX-1, usize::MAX) x capacity 1..3, where the constructor itself must succeed; calls try_set(i), set(i) (panic caught) for i around next_index, "
         "the universe end and usize::MAX, extend with fully valid lists, lists whose first element is invalid and lists that become invalid after a valid prefix (the builder must then be exactly the builder that accepted some prefix of the valid part), each also through an iterator without size information. RLBuilder: try_set(start, len) with start below/at/above the current length and 2^62, len in {0, 1, 3, 2^20, "
         "the largest that fits, one more than fits, usize::MAX}, set_len below/at/above the length. After every call: accepted/refused exactly as the reference says; a refused call leaves every observable (len, next_index, counts, fullness, and the vector a clone converts to) unchanged; "
         "len/next_index/is_full/is_empty/count_ones/count_zeros exact; conversion of a clone succeeds iff allowed and yields a vector that answers get/rank/select/predecessor/successor (sparse: at every index; run-length: at the edges of the first and last runs and on a grid) like the accepted positions / merged runs; one long run-length history (640 runs, about twenty blocks) is observed as well (also after completing a clone with the smallest admissible indices). "
         "States deduplicated on the builder's Debug rendering; distinct = distinct renderings per BFS.",
    bounds={"quick": "depth 5", "thorough": "depth 7"},
    assumptions=[HOOK_ASSUMPTION, "after an extend that panics on an invalid element, how many of the valid elements before it were accepted is not specified; any prefix is admitted"],
)
MANIFEST_TEXT["C16"] = dict(engine="E-hist", design_ref="DESIGN.md §4 C16",
    technique="explicit-state breadth-first exploration of builder call sequences on the real builders, reference model of accepted calls, side-effect oracle on the Debug rendering",
    level_text="All sequences of valid and invalid calls up to depth 5/7 over 60 sparse parameter sets and the run-length builder; every transition executed on the real builder; every reached state converted and compared with the accepted positions.",
    level_note="Histories longer than the bound and parameters outside the alphabet are not explored.")

PROPS["C14"] = dict(
    driver="c14", builds=["rel", "dbg"], level="fault_enumeration",
    rule="E-fault over the C06 catalogue: for each value, EVERY strict prefix of its serialization (byte granularity; for values above 4 KiB quick keeps every byte in the first/last 64 and every 8th byte between) "
         "must make load return Err, through a plain reader and a 3-byte short-read reader; skip_option over every prefix of Some(value) (and of Option values as serialized) must return Err unless complete, in which case the reader "
         "stands exactly at the end; every write budget 0..=size with a sink that accepts the budget in <=3-byte chunks (and in one piece) and then fails must make serialize return that error; every 8-byte truncation of the file "
         "must make the mapped view of the value be refused; serialize_to(file) under every RLIMIT_FSIZE limit (8-byte steps and unaligned neighbours) must return Err or leave the complete file, and load_from of every truncated file must return Err. Buffered writers: IntVectorWriter / RawVectorWriter scenarios under EVERY RLIMIT_FSIZE limit (step 8 bytes plus unaligned ones, SIGXFSZ ignored) must end in Err from new, "
         "the documented push panic, or Err from close - or report success with a byte-identical complete file; with the limit still in force, close() after a caught push panic and a second close() after a failed one must again be Err (never reporting success for an incomplete file is taken literally: any Ok from close() claims a complete file). Each fault point is a distinct case by construction.",
    bounds={"quick": "144-value catalogue (52 312 byte fault points x load/skip/budget), 275 map truncations, 45 writer scenarios x every limit (4 326 limits below the final size)", "thorough": "extended catalogue, every byte of every value, 75 writer scenarios"},
    require_counters={"quick": {"writer_limits_below_final_size": 500, "mapped_truncations": 100}, "thorough": {"writer_limits_below_final_size": 500, "mapped_truncations": 100}},
    assumptions=[HOOK_ASSUMPTION, "a sink answering Interrupted is not part of the fault alphabet (retry-on-interrupt is std's write_all behaviour, not a stated guarantee)", "a writer that is dropped without close() ignores errors by documentation; only close() is held to the property"],
)
MANIFEST_TEXT["C14"] = dict(engine="E-fault", design_ref="DESIGN.md §4 C14",
    technique="exhaustive fault enumeration: every truncation point, every write budget and every file-size limit for a catalogue of all serializable types, on the real load/serialize/skip_option/writer code",
    level_text="Every byte-granular prefix of ~150 (thorough ~300) values of every Serialize type through load and skip_option, every write budget through serialize with short writes, every 8-byte truncation through the mapped views, "
               "and every RLIMIT_FSIZE limit through both buffered writers.",
    level_note="Faults other than truncation / failing sink / file-size limit (e.g. corrupted bytes) are outside the property.")

PROPS["C12"] = dict(
    driver="c12", builds=["rel", "dbg"], level="model_checking",
    rule="E-hist: every push history is replayed on a fresh writer over a real file, ended, and the file compared byte for byte with the serialization of the equivalent in-memory vector. IntVectorWriter: widths x buffer sizes in items "
         "{0,1,2,3,5,8,64,65} (and the default buffer) x every item count up to 3 buffers + 2 x value stream {pattern, all ones incl. bits above the width, alternating 0/1, thorough: all zeros} x {push, extend<u8|u16|u32|u64|usize> fed by iterators with an exact size hint, with lower bound 0 (filter) and with no bounds (from_fn)} x ending {close, close twice, drop, drop by the unwinding of an unrelated panic}. "
         "RawVectorWriter: every push history up to depth d over a 12-letter alphabet (push_bit 0/1, push_int at widths 0,1,7,31,32,33,63,64) and, to depth 3/5, over a 7-letter alphabet of small values (zero bits where an item straddles the buffer limit) x buffer sizes {0,1,64,65,128,192} x endings, with and without a parent header, plus long prefixes that "
         "fill the buffer exactly. Every writer is opened on a path that already holds a longer file of other bytes (4 KiB or 64 KiB, derived from the case). After every push len(); is_open before/after; second close Ok and bytes unchanged; IntVector files load back equal. A state is a history; distinct = histories with at least one bit pushed.",
    bounds={"quick": "10 widths, depth 4: ~430 000 histories", "thorough": "64 widths, depth 5: ~5.2 M histories"},
    require_counters={},
    assumptions=[HOOK_ASSUMPTION, "I/O failures are C14's scope; dropping a RawVectorWriter that has a parent header is not generated (the parent is documented to call close_with_header)"],
)
MANIFEST_TEXT["C12"] = dict(engine="E-hist", design_ref="DESIGN.md §4 C12",
    technique="exhaustive exploration of push histories x buffer sizes x endings on the real file writers, byte-for-byte comparison with the in-memory serialization",
    level_text="All push histories up to the bound for every width and every buffer size incl. 0, sizes smaller than one item and non-multiples of the width; flush boundaries below/at/above are all crossed (counters in the evidence).",
    level_note="Histories longer than the bound and item counts above the cap are not explored.")

PROPS["C20"] = dict(
    special="loom", driver="c20", builds=["loom", "rel"], level="model_checking",
    rule="E-sched: loom (DPOR over the C11 memory model, no preemption bound) explores every interleaving of T threads x K calls of the real serialize::temp_file_name, whose counter is a loom atomic in this build (hook H2; the use "
         "site - fetch_add and the name formatting - is the shared line users run). Configurations (T,K): (2,1) (2,2) (2,3) (3,1) (3,2), thorough adds (3,3) (4,1) (4,2); shared and per-thread name parts; name parts incl. dotted, empty, "
         "spaced and 250 / 300-byte ones (sequential check: also parts with directory components). Oracle per execution: all returned paths pairwise distinct and each file name contains the caller's name part. distinct_nontrivial = distinct assignments of counter values to calls observed. "
         "One loom configuration runs with files already present under the names the first counter values produce (the file system as an environment answer). "
         "Beside it, on the normal build: deterministic sequential checks for 13 name parts (incl. lengths 100..300 bytes) and across 12 name parts that extend each other by digits and separators (no path twice over 1 800 calls); a deterministic history (threads that run one after the other, pre-existing files under the next names, 140 000 + 70 000 calls from single threads, i.e. beyond 2^16 and 2^17); "
         "and a free-running run (8 OS threads x 20 000 calls) that is SAMPLING and decides nothing, but a duplicate it observes is a real counterexample.",
    bounds={"quick": "T x K up to 3 x 2 (7 847 executions) and 2 x 3", "thorough": "adds 3 x 3 (162 390 executions), 4 x 1 (56 805) and 4 x 2 (8 478 855 executions)"},
    assumptions=["memory orderings are loom's model of C11; more than 4 threads x 2 calls / 3 threads x 3 calls is outside the tiers",
                 "the loom build compiles /repo/src through the shadow package harness/loomshadow with --cfg simple_sds_verif_loom"],
)
MANIFEST_TEXT["C20"] = dict(engine="E-sched", design_ref="DESIGN.md §4 C20",
    technique="stateless model checking of the real function with loom (exhaustive DPOR exploration of all interleavings of 2-4 threads x 1-3 calls)",
    level_text="Every interleaving of the explored thread/call configurations, with every possible assignment of counter values to calls actually observed; the explored code is the library's own temp_file_name.",
    level_note="loom only sees the synchronisation it intercepts (the counter); the free-running corroboration covers declaration-level changes by sampling only.")

PROPS["C18"] = dict(
    driver="c18", builds=["rel", "dbg"], level="model_checking",
    rule="E-hist: every sequence of Map(file, ReadOnly|Mutable) / Drop(handle) / Write(handle, first|mid|last element, value) / Read(handle) up to depth d with at most 3 live maps over files of 0, 8, 4088, 4096, 4104, 8192, 65536 and 1 MiB+8 bytes, "
         "files of 4, 12 and 4100 bytes (not multiples of 8), a symbolic link to a 4096-byte file and a missing file; each history is executed from scratch on the real MemoryMap. Oracle after every action from /proc/self/maps: a successful map is 8-aligned, its whole page-rounded range is mapped to that file, readable "
         "(writable if mutable), as_ref() equals the file content and len() = size/8; missing / non-multiple-of-8 files give Err and leave nothing mapped; an empty file gives Err or a valid empty map; after Drop no page of the dropped range is still mapped to the file and other live maps are intact; "
         "every map sits between two PROT_NONE guard pages placed by the harness (one is placed first so that the library's mapping lands directly below it) and both guards must survive the drop, so an unmap that is one page too long or too short is seen deterministically; with no live "
         "handle no test file is mapped; the process never holds more open descriptors to a test file than it has live maps of it (so a dropped map keeps nothing of the file open); a write is visible through every live map of the file and in the file after the map is dropped. OS refusal: a memfd sealed against writes (5 sizes x 2 modes, through /proc/self/fd), for which the kernel refuses a shared writable mapping but accepts weaker ones - MemoryMap::new must fail, or return a map with the right content whose writes (mutable mode) are in the file after the drop. A state is a history; all histories are distinct by construction.",
    bounds={"quick": "depth 1..3 over 13 files + depth 4 over 7 files: 96 911 histories", "thorough": "depth 1..4 over 13 files + depth 5 over 7 files"},
    require_counters={},
    timeout={"quick": 900, "thorough": 4 * 3600},
    assumptions=[HOOK_ASSUMPTION, "the address space is observed through /proc/self/maps (Linux)", "the OS refusals provoked are the zero-length mapping and the shared writable mapping of a write-sealed memfd"],
)
MANIFEST_TEXT["C18"] = dict(engine="E-hist", design_ref="DESIGN.md §4 C18",
    technique="exhaustive exploration of map/drop/write/read histories on the real MemoryMap with the process address space (/proc/self/maps) and the file contents as oracle",
    level_text="All histories up to depth 3 (thorough 4-5) with up to 3 live maps over 10 file sizes from 0 bytes to many pages and both modes; every action followed by an address-space and content check.",
    level_note="Observes mappings through /proc/self/maps; failures other than the zero-length mapping and the write-sealed memfd (ENOMEM etc.) are not provoked.")

PROPS["C09"] = dict(
    driver="c09", builds=["rel", "dbg", "native"], level="exploration",
    rule="E-input: every bit sequence of length <= N plus 9 multi-block representatives (up to 125 000 bits; long and short superblocks) as BitVector, SparseVector and RLVector - all three compared with the same reference, so they agree with "
         "each other - with the argument set A(n) = {0, 1, n-1, n, n+1, 2n, 2^63, MAX-1, MAX} (plus every in-range value for the small ones) in EVERY argument position of rank, rank_zero (<= len), select, select_zero, select_iter, "
         "select_zero_iter, predecessor, successor; Iterator::nth / nth_back(k) for k in A(remaining) on every iterator kind after 0, 1 and 2 consumed items from the front and after 1 and 2 items consumed from the back (result, exact size hint afterwards, the next items); wavelet matrices over small "
         "alphabets with A(.) x (present, absent, outside-the-alphabet values incl. u64::MAX) in every position of rank/select/select_iter/inverse_select/predecessor/successor/contains, and WMCore map_down/map_down_with/map_up_with over all "
         "(index, value) and map_down_with_two_positions over all (index, index, value) - the pair variant must answer like two single queries; constructors with widths {0,1,13,64,65,2^20,MAX}, SparseBuilder::new with ones > universe, SparseBuilder::new / multiset over the universes 2^63, 2^63+1, MAX-1, MAX with 1, 2, 3, 5 values (built and queried at the extremes), RLBuilder::try_set with start+len overflowing. No call may panic. Distinct by hashed structure.",
    bounds={"quick": "N=10; WM scopes (1,6) (2,4) (3,3) (4,2)", "thorough": "N=16; WM scopes (1,10) (2,6) (3,4) (4,3)"},
    assumptions=[HOOK_ASSUMPTION, MODEL_ASSUMPTION, "documented 'may panic' cases (get(i >= len), with_len whose len*width overflows) are not checked; WMCore with values >= 2^width is only required not to panic"],
)
MANIFEST_TEXT["C09"] = dict(engine="E-input", design_ref="DESIGN.md §4 C09",
    technique="bounded exhaustive input enumeration on the real code with the extreme-argument set A(.) in every argument position, against reference models, in three build configurations",
    level_text="All structures up to 10/16 bits plus multi-block representatives x every argument position x A(.), including Iterator::nth/nth_back beyond the remainder and the core mapping for any (index, value); decided with overflow checks on (no panic) and off (same answers).",
    level_note="Trusts the reference models; larger structures are represented by 9 instances only.")

PROPS["C10"] = dict(
    driver="c10", builds=["rel", "dbg"], level="model_checking",
    rule="E-hist: the complete call tree over {next, nth(0), nth(1), nth(2), nth(MAX)} and, for double-ended iterators, {next_back, nth_back(0|1|2|MAX)} up to depth d; every branch continues on a clone of the iterator (so clone() is exercised at "
         "every node); after every call the returned item and the size hint (exact for exact-size iterators, any valid bounds otherwise) are compared with a VecDeque reference, and count() and last() of clones of the iterator in that state with what is left; once an iterator is exhausted every call is tried once more and must return None. Iterators x starting points: "
         "BitVector / SparseVector / RLVector iter, one_iter, zero_iter, run_iter, select_iter(r), select_zero_iter(r), predecessor(v), successor(v) for EVERY r and v; multiset sparse vectors; IntVector iter / into_iter; WaveletMatrix iter, into_iter, "
         "value_iter(v), select_iter(r, v), predecessor(i, v), successor(i, v) for every argument. Parents: every bit sequence of <= N bits as all three types, word-boundary and multi-block run-length parents (a block ending in padding), LOADED copies (serialize; load) of multi-block parents incl. a 20-block run-length vector whose block starts are spread over several index buckets (shallower trees: depth 4, 3 starting points), "
         "every multiset over universes <= U with <= K values, IntVectors over {0, max} at widths 1/7/64, every vector of the WM scopes. A state is a history (no merging: iterators keep private cursors); all histories are distinct by construction.",
    bounds={"quick": "depth 6 (positioned iterators 4), N=7, U=K=5, WM scopes (1,6) (2,4) (3,3)", "thorough": "depth 8 (positioned 5), N=8, U=K=6, WM scopes (1,7) (2,5) (3,4): 3.8 x 10^9 transitions per build"},
    assumptions=[HOOK_ASSUMPTION, MODEL_ASSUMPTION, "parents beyond the stated sizes are not explored; RunIter's offset()/rank() accessors are checked by C03"],
)
MANIFEST_TEXT["C10"] = dict(engine="E-hist", design_ref="DESIGN.md §4 C10",
    technique="exhaustive exploration of iterator call trees (all interleavings of next/next_back/nth/nth_back up to a depth) on the real iterators against a deque reference",
    level_text="Every call sequence up to depth 6/8 on every iterator kind the library hands out, from every starting point, over all small parents; exact size after every call and None-forever after exhaustion.",
    level_note="Call sequences longer than the bound and parents larger than the scopes are not explored.")

PROPS["C15"] = dict(
    driver="c15", builds=["rel", "dbg"], level="exploration",
    rule="E-input: every non-decreasing value list of <= K values over every universe <= U (incl. overfull lists with more values than elements); duplicates with multiplicities {1,2,5,17} at bucket boundaries 2^w*k-1 / 2^w*k / 0 / n-1 "
         "for universes 64..2^20 (the low width the parameter rule picks) and for universes 2^63, usize::MAX-1, usize::MAX with values at both ends; multisets with 100 000 (thorough 300 000) copies of one value before / after / between other values and behind thousands of empty buckets (long select superblocks in the upper part), queried at the structural edges; SparseVector::try_from_iter over EVERY sequence (sorted or not) of length <= L over 0..A. Checked: len, count_ones, is_multiset, select / select_iter at every rank and A(.), "
         "get, rank, successor (first occurrence) and predecessor (last occurrence) as full iterators at every position and A(.), one_iter and the bit iterator forward, reversed and at every forward/backward split point (items taken from the front first, and from the back first), and with the front advanced by nth(k), k <= 3, after <= 3 items taken from the back (also past the meeting point; the iterator must stay exhausted); try_from_iter accepts exactly "
         "the non-decreasing sequences, sizes the universe to last+1 and equals the multiset builder's vector. Zero-side queries are not checked (documented as not meaningful for multisets). Non-trivial = has duplicates or is a try_from_iter sequence.",
    bounds={"quick": "U=8, K=9; L=5 over 0..6 (9 331 sequences)", "thorough": "U=9, K=10; L=7 over 0..8"},
    require_counters={"quick": {"overfull_cases": 10, "cases_with_duplicates": 100}, "thorough": {"overfull_cases": 10, "cases_with_duplicates": 100}},
    assumptions=[HOOK_ASSUMPTION, "reference = sorted Vec<usize> with linear scans"],
)
MANIFEST_TEXT["C15"] = dict(engine="E-input", design_ref="DESIGN.md §4 C15",
    technique="bounded exhaustive input enumeration on the real code (all multisets over small universes, bucket-boundary duplicates, all short sequences for try_from_iter) against a sorted-list reference",
    level_text="All multisets up to the stated size incl. overfull ones, duplicates at real bucket boundaries, and every sorted or unsorted sequence up to length 5/6 through try_from_iter; every present-value query and both iterators in both directions at every split.",
    level_note="Larger multisets are not explored; rank_zero/select_zero/zero_iter are outside the property.")

PROPS["C11"] = dict(
    driver="c11", builds=["rel", "dbg"], level="exploration",
    rule="E-input: every bit sequence of length <= N plus representatives (all-zero and all-one vectors at word boundaries, multi-word, multi-block and long-superblock vectors) is built as each of BitVector / SparseVector / RLVector and sent through "
         "EVERY conversion chain of 1..3 conversions: 42 chains by From (consecutive types differ) and 117 chains by copy_bit_vec (any type to any type incl. itself). The result must have the reference length and set positions, be == the structure "
         "the target type's own builder produces from the same bits, and serialize to identical bytes. Iterator routes: FromIterator<bool> for BitVector and SparseVector::try_from_iter (the empty sequence and sequences ending with a set bit) must give the canonical structure. Builder decompositions: every run list of <= 3 runs of length <= R (gaps 0/1/2) x EVERY composition of each run into adjacent try_set pieces "
         "(down to bit at a time) x {no set_len, set_len(current length) before every run, set_len(next start) before every run, set_len(current length) before every PIECE, two refused try_set calls (an overflowing run behind a gap, a run before the current length) before every piece} x tail {0, 2}: the RLVector must be the canonical one. "
         "Huge universes (incl. k = 0..34 isolated bits, then a bit beyond 2^63: the widest gap code at every fill level of a block): SparseVector <-> RLVector chains (From and copy_bit_vec) over lengths up to usize::MAX with runs at 2^60-scale positions and runs ending exactly at usize::MAX. Non-trivial = has set and unset bits / any decomposition.",
    bounds={"quick": "N=12, R=5", "thorough": "N=18, R=6"},
    assumptions=[HOOK_ASSUMPTION, MODEL_ASSUMPTION, "BitVector construction routes from a raw vector / bool iterator are compared in C01"],
)
MANIFEST_TEXT["C11"] = dict(engine="E-input", design_ref="DESIGN.md §4 C11",
    technique="bounded exhaustive enumeration of bit sequences x all conversion chains up to length 3 x all builder call decompositions, with a canonical-form oracle (== and identical bytes)",
    level_text="All 159 conversion chains on every bit sequence up to 12/18 bits and on multi-block representatives; every decomposition of small run lists into builder calls incl. interleaved set_len.",
    level_note="Chains longer than 3 and larger inputs are not explored.")

PROPS["C13"] = dict(
    driver="c13", builds=["rel", "dbg"], level="exploration",
    rule="E-input + E-fault: real files made of every single mappable catalogue value (behind 0/1/3 padding elements, both mapping modes), every ordered pair, and every triple over a sub-catalogue "
         "(Vec<u64|usize|(u64,u64)>, byte vectors of many lengths, ASCII and multi-byte strings, Option of those incl. None, RawVector, IntVector at many widths, Option<IntVector>). For the intact file and for EVERY 8-byte truncation: "
         "a view (MappedSlice / MappedBytes / MappedStr / MappedOption / RawVectorMapper / IntVectorMapper) at each structure start that lies entirely inside the file exposes exactly the content load would give "
         "(all bit/word/get/iter accessors; integers of widths 0,1,7,13,32,63,64 at every bit offset of the first 200 bits), map_offset() is the start and map_offset()+map_len() is the next structure's offset; a view of a structure that is cut short or starts beyond the end is refused with Err. "
         "For the intact file every view type at offsets {len, len+1, 2len, 2^63, MAX-1, MAX} is refused with Err (no panic). Distinct = distinct files.",
    bounds={"quick": "58-value mappable catalogue: 348 single-value files, 3 364 pairs, ~1 700 triples; 35 000 cut structures", "thorough": "extended catalogue (all widths, all byte lengths), all pairs, ~27 000 triples"},
    require_counters={"quick": {"cut_structures": 1000}, "thorough": {"cut_structures": 1000}},
    assumptions=[HOOK_ASSUMPTION, "files are written by the library's own serialization (the property is about library-written files)"],
)
MANIFEST_TEXT["C13"] = dict(engine="E-input", design_ref="DESIGN.md §4 C13",
    technique="bounded exhaustive enumeration of file layouts (all pairs/triples of mappable values) x every 8-byte truncation x out-of-range offsets, on real files and real mmap, compared with the described content",
    level_text="Every pair (and many triples) of mappable values in one file, views at every structure start with tiling checked, every 8-byte truncation of every file, and six out-of-range offsets per view type.",
    level_note="Files with more than three structures and values outside the catalogue are not explored.")

PROPS["C19"] = dict(
    driver="c19", builds=["rel", "dbg"], level="model_checking",
    rule="E-hist: for every bit sequence of <= N bits and 7 representatives (multi-block, long and short superblocks for ones and zeros, 200 000 bits) the graph of states (enabled subset of {rank, select, select_zero}, built|loaded) under the actions "
         "enable_rank, enable_select, enable_select_zero, enable_pred_succ and serialize;load is explored to a fixpoint (all 16 states, 80 transitions) on the real BitVector. In every state: supports_* report exactly the subset (so loading reports "
         "exactly what was written), the value == a freshly built vector with the same subset enabled and serializes identically, the bits are unchanged, every enabled query equals the reference; enabling twice leaves the value equal; every path that "
         "reaches the full subset equals the fully enabled original. Composites: SparseVector files at every admissible low width and WaveletMatrix / WMCore files are written by the independent codec with EVERY subset of the support structures in the embedded "
         "bitvectors (none, each one, all), and must load - also wrapped as Option<...> in front of a sentinel - and answer all queries; with no supports or all supports they must equal the built value. the memory-mapped counterpart: a serialized bitvector with each of the 8 support subsets is walked view by view (raw vector, three MappedOption views whose inner view may cover less than the optional) and must end exactly at the end of the file with the right presence flags; skip_option over [optional, sentinel] for every catalogue value through readers of chunk size 1/3/7/8/9/4095/unbounded must leave the reader exactly at the sentinel; "
         "absent_option writes absent_option_size() elements. Distinct = states + files + (value, chunk) pairs.",
    bounds={"quick": "N=9 (1023+7 bitvectors x 16 states), sparse files for all sets <= 8 bits x all widths, WM scopes (1,6) (2,4) (3,3) (4,2)", "thorough": "N=16, sparse <= 14 bits, WM scopes (1,8) (2,5) (3,4) (4,3), extended catalogue"},
    require_counters={"quick": {"sparse_files_at_the_library_width": 10}, "thorough": {"sparse_files_at_the_library_width": 10}},
    assumptions=[HOOK_ASSUMPTION, MODEL_ASSUMPTION, "the independent codec in harness/vcore/src/spec.rs (written from SERIALIZATION.md) produces the support-free files"],
)
MANIFEST_TEXT["C19"] = dict(engine="E-hist", design_ref="DESIGN.md §4 C19",
    technique="explicit-state exploration to a fixpoint of the (support subset, built|loaded) graph on the real bitvector; support-free composite files produced by an independent codec; skip_option under short reads",
    level_text="All 16 states and 80 transitions per bitvector for every bitvector up to 9/16 bits and multi-regime representatives; support-free sparse / wavelet-matrix files at every admissible parameter; skip_option for every catalogue value x 7 reader chunk sizes.",
    level_note="The state graph is finite and explored completely; the input set is bounded as stated.")

PROPS["C07"] = dict(
    driver="c07", builds=["rel", "dbg"], level="exploration",
    rule="E-input with an independent codec written from SERIALIZATION.md alone (harness/vcore/src/spec.rs, no call into the library). Direction 1: every value of the extended C06 catalogue, every RawVector / BitVector (rotating support subsets) / "
         "SparseVector / RLVector of <= N bits, sparse vectors at every low width 1..40 with universes that are and are not multiples of 2^w, run-length vectors with 1/8/9/many blocks and 2^60-scale magnitudes, every wavelet matrix of the scopes "
         "(plus lengths at and around powers of two), and the files left by the buffered writers (IntVectorWriter at six widths x 0..200 items x four buffer sizes, RawVectorWriter for 0..1000 bits; closed or dropped; incl. writers that received nothing) are written by the library and decoded by the codec: same logical content, reader ends exactly at the end, and every 'must' holds (little-endian whole elements, zero padding, zero unused bits, "
         "stored ones = actual, exactly one bucket per universe slice, w >= 1, 4-bit units with whole runs per 64-unit block, zero padding only in closed blocks and none in the final block, maximal runs, samples per block at minimal width, data width 4, "
         "wavelet-matrix width = bit_len(max), first[v] = first position or len, minimal width of first). Direction 2: files encoded by the codec with every admissible writer choice - all support structures absent, EVERY low width 1..bit_len(n)+1 for "
         "sparse vectors, every sample width from minimal to 64 for run-length vectors - and every subset of support structures in embedded bitvectors - must load and answer the full query sets (and equal the built value where the document determines the content). Greedy block packing is counted, not required. Distinct by hashed case.",
    bounds={"quick": "N=14 (direction 1), 12 (direction 2); WM scopes (1,8) (2,5) (3,3) (4,2)", "thorough": "N=20 / 16; WM scopes (1,9) (2,6) (3,4) (4,3); all 64 sample widths for every vector"},
    require_counters={"quick": {"direction1_library_written_files": 1000, "direction2_document_written_files": 1000}, "thorough": {"direction1_library_written_files": 1000, "direction2_document_written_files": 1000}},
    assumptions=[HOOK_ASSUMPTION, MODEL_ASSUMPTION, "my reading of SERIALIZATION.md as implemented in spec.rs; rank/select support structures are implementation-dependent per the document and only checked for whole elements"],
)
MANIFEST_TEXT["C07"] = dict(engine="E-input", design_ref="DESIGN.md §4 C07",
    technique="bounded exhaustive input enumeration with an independent codec of the published format: library-written files decoded by the codec, codec-written files (all admissible writer choices) loaded and queried by the library",
    level_text="Both directions for every documented type over all small structures and boundary-directed families; this is the only check that a change applied symmetrically to serialize and load cannot hide from.",
    level_note="Trusts the independent codec as a faithful reading of the document.")

C08_DRIVERS = ["c08x", "c01", "c02", "c03", "c04", "c05", "c09", "c10", "c13", "c15", "c06", "c19"]
PROPS["C08"] = dict(
    monitor=True, drivers=C08_DRIVERS, builds=["rel", "native", "dbg"], extra_builds={"thorough": ["asan"]}, level="exploration",
    rule="(1) Own space (driver c08x): safe call sequences whose ANSWERS no property specifies but which must stay inside the buffers - conversions from every small multiset sparse vector (incl. overfull) to the other types followed by every query "
         "with in-range and extreme arguments, zero-side queries on multisets, every query on bitvectors with each of the 8 support subsets (built and loaded), RawVector / IntVector accessors and setters at A(len), RankSupport::rank and SelectSupport::select (safe public functions that take the parent as an argument) with their own and with FOREIGN parents (every pair of bit sequences of <= 4/6 bits plus word-, block- and superblock-sized shapes) at arguments past either end, loads of library-written structures of 1..16 MiB (Vec<u64>, pairs, IntVector, BitVector with supports) that are then pushed to and indexed at both ends, and EVERY mapped view type at EVERY "
         "offset of library-written files (singles and pairs of catalogue values): a view is refused or lies inside the map. (2) Monitor over E-input / E-hist: the drivers of C01-C06, C09, C10, C13, C15 and C19 (structures built through the safe API AND their loaded copies; every query with the extreme-argument set A(.); every iterator call history; "
         "mapped views at good and bad offsets) are re-run in monitor mode with the bounds monitor H1 compiled into the library: every unchecked access on the query paths (low_set_unchecked, high_set_unchecked, bits::select and its two table reads, "
         "RawVector / RawVectorMapper::word_unchecked, RankSupport::rank_unchecked) first checks its index and panics with the marker VERIF-OOB. Verdict = a VERIF-OOB panic or a reproducible fatal signal inside a library call, in builds with and without "
         "overflow checks and with and without BMI2; wrong answers and ordinary panics are counted but ignored here (they belong to the other properties). Thorough adds an AddressSanitizer build with the hooks OFF (nightly), whose reports are verdicts too. "
         "Distinct non-trivial = the drivers' distinct cases; bounds_monitor_hits shows the monitor was live.",
    bounds={"quick": "c08x: multisets over universes <= 4 with <= 5 values, bitvectors <= 5 bits x 8 subsets, ~130 files probed at every offset; plus the quick bounds of the eleven other drivers; x 3 builds", "thorough": "c08x: universes <= 6 / 6 values, bitvectors <= 7 bits, ~1 000 files; plus the thorough bounds of the eleven other drivers; x 3 builds + AddressSanitizer"},
    unsafe_inventory_expected=19,
    timeout={"quick": 1200, "thorough": 6 * 3600},
    assumptions=["an out-of-bounds access through a site outside the H1 inventory is only seen by the debug build's std precondition checks (abort) and the ASan pass, and only if it leaves the allocation",
                 "the inventory of unsafe sites is re-counted from /repo/src at run time and reported (unsafe_inventory_sites); a changed count is information, not a verdict"],
)
MANIFEST_TEXT["C08"] = dict(engine="E-input", design_ref="DESIGN.md §4 C08",
    technique="bounded exhaustive exploration (the input / history spaces of eleven drivers) under a bounds monitor compiled into every unchecked access, in three build configurations, plus AddressSanitizer in the thorough tier",
    level_text="Every structure, argument and call history the other drivers enumerate is replayed with an index check in front of every unchecked read on the query paths, in optimized builds without overflow checks (where a wrapped sum really walks off a buffer), "
               "with the BMI2 and the portable select, and with overflow checks; ASan gives an independent verdict that does not depend on hook placement.",
    level_note="Coverage is that of the underlying drivers; accesses outside the hook inventory rely on ASan / debug-std checks.")
