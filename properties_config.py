"""Per-property configuration of the coordinator (/verif/check)."""

HOOK_ASSUMPTION = "library built from /repo's working tree with --cfg simple_sds_verif (bounds monitor on the unchecked accesses; additive, does not change results)"
MODEL_ASSUMPTION = "the reference models in harness/vcore/src/model.rs (validated at worker start-up against a brute-force Vec<bool> model for all bit strings of length <= 9)"

PROPS = {
    "C01": dict(
        driver="c01", builds=["rel", "dbg", "native"], level="exploration",
        rule="E-input: (1) every bit sequence of length 0..=N; (2) every word up to depth d over a 21-letter regime alphabet "
             "(runs of 1/63/64/4095/4096/4097/8192/90000 ones, 1/63/511/4096/90000/140000 zeros, periodic patterns and their complements); "
             "(3) length sweep around 64/512/4096/65536/83521/131072 x 6 fills. Each vector is built from a raw vector (all queries: every position and rank "
             "for families 1,3; run/word/block edges +-1 and EVERY rank for family 2; plus the out-of-range set A(.)) and must equal the vectors built by "
             "FromIterator<bool>, copy_bit_vec and From<SparseVector/RLVector>. A case is non-trivial when it has both set and unset bits; distinct = distinct bit sequences (hashed case keys).",
        bounds={"quick": "N=12, d=2 (462 words), sweep 984 cases", "thorough": "N=17, d=3 (9723 words) + depth 4 over 8 letters (4096 words), sweep 1116 cases"},
        require_counters={"quick": {"vectors_with_long_superblock(ones)": 1, "vectors_with_long_superblock(zeros)": 1, "vectors_with_long_and_short(ones)": 1},
                          "thorough": {"vectors_with_long_superblock(ones)": 1, "vectors_with_long_superblock(zeros)": 1, "vectors_with_several_long(ones)": 1}},
        assumptions=[HOOK_ASSUMPTION, MODEL_ASSUMPTION, "bitvectors longer than ~330 000 bits are outside the explored space"],
    ),
}

C08_DRIVERS = []

# Texts for MANIFEST.json (gen_manifest.py).
NOT_APPLICABLE = {}
MANIFEST_TEXT = {
    "C01": dict(engine="E-input", design_ref="DESIGN.md §4 C01",
        technique="bounded exhaustive input enumeration on the real code (small-scope + regime-alphabet words) against a reference model",
        level_text="Every bit sequence up to length 12/17 and every word up to depth 2/3(+4) over a regime alphabet that reaches long and short select superblocks for ones and zeros, "
                   "multi-block rank samples and partial last words; every query argument in the stated sets; three build configurations (portable select, BMI2, overflow checks on). "
                   "A coverage statement over that space, not a proof for all inputs.",
        level_note="Trusts the reference model (self-checked against brute force) and rustc; vectors beyond ~330k bits are not explored."),
}
