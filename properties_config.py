"""Per-property configuration of the coordinator (/verif/check)."""

HOOK_ASSUMPTION = "library built from /repo's working tree with --cfg simple_sds_verif (bounds monitor on the unchecked accesses; additive, does not change results)"
MODEL_ASSUMPTION = "the reference models in harness/vcore/src/model.rs (validated at worker start-up against a brute-force Vec<bool> model for all bit strings of length <= 9)"

PROPS = {
    "C01": dict(
        driver="c01", builds=["rel", "dbg", "native"], level="exploration",
        rule="E-input: (1) every bit sequence of length 0..=N; (2) every word up to depth d over a 21-letter regime alphabet "
             "(runs of 1/63/64/4095/4096/4097/8192/90000 ones, 1/63/511/4096/90000/140000 zeros, periodic patterns and their complements); "
             "(3) length sweep around 64/512/4096/65536/83521/131072 x 6 fills. Each vector is built from a raw vector (all queries: every position and rank "
             "for families 1,3; run/word/block edges +-1 and EVERY rank for family 2; plus the out-of-range set A(.)) and must equal the vectors built by "
             "FromIterator<bool>, copy_bit_vec and From<SparseVector/RLVector>. A case is non-trivial when it has both set and unset bits; distinct = distinct bit sequences (hashed case keys).",
        bounds={"quick": "N=12, d=2 (462 words), sweep 984 cases", "thorough": "N=17, d=3 (9723 words) + depth 4 over 8 letters (4096 words), sweep 1116 cases"},
        require_counters={"quick": {"vectors_with_long_superblock(ones)": 1, "vectors_with_long_superblock(zeros)": 1, "vectors_with_long_and_short(ones)": 1},
                          "thorough": {"vectors_with_long_superblock(ones)": 1, "vectors_with_long_superblock(zeros)": 1, "vectors_with_several_long(ones)": 1}},
        assumptions=[HOOK_ASSUMPTION, MODEL_ASSUMPTION, "bitvectors longer than ~330 000 bits are outside the explored space"],
    ),
}

C08_DRIVERS = []

# Texts for MANIFEST.json (gen_manifest.py).
NOT_APPLICABLE = {}
MANIFEST_TEXT = {
    "C01": dict(engine="E-input", design_ref="DESIGN.md §4 C01",
        technique="bounded exhaustive input enumeration on the real code (small-scope + regime-alphabet words) against a reference model",
        level_text="Every bit sequence up to length 12/17 and every word up to depth 2/3(+4) over a regime alphabet that reaches long and short select superblocks for ones and zeros, "
                   "multi-block rank samples and partial last words; every query argument in the stated sets; three build configurations (portable select, BMI2, overflow checks on). "
                   "A coverage statement over that space, not a proof for all inputs.",
        level_note="Trusts the reference model (self-checked against brute force) and rustc; vectors beyond ~330k bits are not explored."),
}

PROPS["C05"] = dict(
    driver="c05", builds=["rel", "dbg"], level="model_checking",
    rule="E-hist: breadth-first search over operation histories on the real RawVector / IntVector from several initial states (new, with_capacity, with_len at word boundaries -1/0/+1, "
         "default, From<Vec<T>>/FromIterator<T> for the five item types). Actions take their parameters relative to the current length (push_bit, push_int at widths 1/7/63/64/exact-fill/fill+1, "
         "pop_bit, pop_int incl. wider than the content, set_bit, set_int incl. word-straddling, resize up/down across word boundaries, clear, reserve; push/pop/set/resize/clear/reserve/pack/extend "
         "with values wider than the item width). After every transition: return value, len/width, every bit/item, iterators, and the canonical-state oracle (== a freshly built vector, identical bytes, same count of set bits). "
         "States are deduplicated on the real object's full representation (len, width, words); a state is non-trivial/distinct when its representation was not seen before in the same BFS.",
    bounds={"quick": "depth 4, reduced value alphabet, 12 raw + 59 int initial states (10 widths)", "thorough": "depth 4 full alphabet + depth 5 reduced alphabet, 12 raw + 331 int initial states (all 64 widths)"},
    assumptions=[HOOK_ASSUMPTION, "states reachable from several initial states are counted once per initial state (each BFS has its own seen-set)", "set_bit/set_int beyond len and capacity values are not part of the property and not checked"],
)
MANIFEST_TEXT["C05"] = dict(engine="E-hist", design_ref="DESIGN.md §4 C05",
    technique="explicit-state breadth-first exploration of operation histories on the real vectors with a reference-model and canonical-state oracle after every transition",
    level_text="All operation sequences up to depth 4 (5 in thorough with the reduced alphabet) from 71/343 initial states, every transition executed on the real object and compared with a Vec<bool>/Vec<u64> reference; "
               "states deduplicated on the concrete representation so stale bits create new states and are flagged immediately.",
    level_note="Histories longer than the bound, and value patterns outside the alphabet, are not explored.")
