#!/usr/bin/env python3
"""Tools for the seeded property-breaking changes (never part of a registered check).

  seedtool.py verify <seed-dir>           confirm in a scratch worktree: demo fails with the patch, passes without,
                                          the repository's own suite passes with the patch (3 runs)
  seedtool.py run <seed-dir> <Cxx> [...]  apply the patch to /repo, run the quick checks of the given properties,
                                          undo the patch; prints which checks raised a VIOLATION
  seedtool.py lane <seed-dir> <Cxx> [...] the same against a scratch copy of /repo and the harness under /tmp/seedlane
  seedtool.py keep <seed-dir> <id>        copy patch.diff, demo.rs, notes.md and meta.json to /verif/seeded/<id>/

<seed-dir> contains patch.diff, demo.rs, notes.md (as written by the seeding agents).
"""
import json
import os
import shutil
import subprocess
import sys
import time

VERIF = os.path.dirname(os.path.abspath(__file__))
REPO = "/repo"


def sh(cmd, cwd=None, env=None, timeout=None):
    p = subprocess.run(cmd, cwd=cwd, env=env, stdout=subprocess.PIPE, stderr=subprocess.STDOUT, text=True, timeout=timeout)
    return p.returncode, p.stdout


def verify(seed):
    seed = os.path.abspath(seed)
    name = seed.strip("/").replace("/", "_")
    wt = "/tmp/seedverify-" + name
    sh(["git", "-C", REPO, "worktree", "remove", "--force", wt])
    shutil.rmtree(wt, ignore_errors=True)
    rc, out = sh(["git", "-C", REPO, "worktree", "add", "-q", "--detach", wt, "HEAD"])
    if rc != 0:
        print(out)
        return 2
    res = dict(seed=seed, repo_head=sh(["git", "-C", REPO, "rev-parse", "--short", "HEAD"])[1].strip())
    try:
        shutil.copy(os.path.join(REPO, "Cargo.lock"), wt)
        os.makedirs(os.path.join(wt, "tests"), exist_ok=True)
        shutil.copy(os.path.join(seed, "demo.rs"), os.path.join(wt, "tests", "seed_demo.rs"))
        env = dict(os.environ, CARGO_NET_OFFLINE="true", RUST_BACKTRACE="0")
        # Some demonstrations need a particular build (e.g. the portable code paths without BMI2); the
        # repository's own suite is always run in its default configuration.
        demo_env = dict(env)
        if os.environ.get("SEED_DEMO_RUSTFLAGS"):
            demo_env["RUSTFLAGS"] = os.environ["SEED_DEMO_RUSTFLAGS"]
            res["demo_rustflags"] = os.environ["SEED_DEMO_RUSTFLAGS"]
        rc, out = sh(["cargo", "test", "--offline", "--test", "seed_demo"], cwd=wt, env=demo_env, timeout=1800)
        res["demo_without_patch"] = "pass" if rc == 0 else "FAIL"
        rc, out = sh(["git", "apply", os.path.join(seed, "patch.diff")], cwd=wt)
        res["patch_applies"] = rc == 0
        if rc != 0:
            res["apply_output"] = out[-500:]
        else:
            rc, out = sh(["cargo", "test", "--offline", "--test", "seed_demo"], cwd=wt, env=demo_env, timeout=1800)
            res["demo_with_patch"] = "fail" if rc != 0 else "PASSES (seed does not manifest)"
            res["demo_tail"] = out[-600:]
            os.remove(os.path.join(wt, "tests", "seed_demo.rs"))
            suite = []
            for _ in range(3):
                rc, out = sh(["cargo", "test", "--offline"], cwd=wt, env=env, timeout=3600)
                suite.append(rc == 0)
                if rc != 0:
                    res["suite_tail"] = out[-800:]
            res["suite_with_patch_3_runs"] = suite
        res["ok"] = res.get("demo_without_patch") == "pass" and res.get("patch_applies") and res.get("demo_with_patch") == "fail" and all(res.get("suite_with_patch_3_runs", [False]))
    finally:
        sh(["git", "-C", REPO, "worktree", "remove", "--force", wt])
        shutil.rmtree(wt, ignore_errors=True)
    json.dump(res, open(os.path.join(seed, "verify.json"), "w"), indent=1)
    print(json.dumps({k: v for k, v in res.items() if k not in ("demo_tail",)}, indent=1))
    return 0 if res["ok"] else 1


LANE = os.environ.get("SEED_LANE", "/tmp/seedlane")


def lane(seed, props):
    """Like run, but in a persistent scratch lane (/tmp/seedlane) instead of /repo: a worktree of /repo's HEAD
    with the patch applied, a copy of the harness pointing at it, its own target directory."""
    seed = os.path.abspath(seed)
    repo, harness = os.path.join(LANE, "repo"), os.path.join(LANE, "harness")
    os.makedirs(LANE, exist_ok=True)
    head = sh(["git", "-C", REPO, "rev-parse", "HEAD"])[1].strip()
    if not os.path.exists(os.path.join(repo, ".git")):
        sh(["git", "-C", REPO, "worktree", "prune"])
        rc, out = sh(["git", "-C", REPO, "worktree", "add", "-q", "--detach", repo, "HEAD"])
        if rc != 0:
            print(out)
            return 2
    sh(["git", "checkout", "-q", "--detach", head], cwd=repo)
    sh(["git", "checkout", "--", "."], cwd=repo)
    shutil.copy(os.path.join(REPO, "Cargo.lock"), repo)
    sh(["rsync", "-a", "--delete", "--exclude", "target", os.path.join(VERIF, "harness") + "/", harness + "/"])
    for f in ("drivers/Cargo.toml", "loomshadow/Cargo.toml"):
        p = os.path.join(harness, f)
        if os.path.exists(p):
            t = open(p).read().replace('"/repo"', '"%s"' % repo).replace('"/repo/', '"%s/' % repo)
            open(p, "w").write(t)
    rc, out = sh(["git", "apply", os.path.join(seed, "patch.diff")], cwd=repo)
    if rc != 0:
        print("patch does not apply:", out)
        return 2
    env = dict(os.environ, VERIF_HARNESS=harness, VERIF_TARGET=os.path.join(LANE, "target"), VERIF_OUT=os.path.join(LANE, "out"), VERIF_REPO=repo)
    results = {}
    try:
        for p in props:
            t0 = time.time()
            rc, out = sh([os.path.join(VERIF, "check"), p, "quick"], cwd=VERIF, env=env, timeout=3600)
            viol = [l for l in out.splitlines() if l.startswith("VIOLATION")]
            sigs = [l.strip() for l in out.splitlines() if l.strip().startswith("sig=")]
            results[p] = dict(exit=rc, violations=len(viol), first_sigs=[s[:260] for s in sigs[:4]], wall=round(time.time() - t0, 1), how="scratch lane (worktree of /repo HEAD %s + patch)" % head[:7])
            print("%s: exit=%d violations=%d %s" % (p, rc, len(viol), (sigs[0][:200] if sigs else "")), flush=True)
            if rc == 2:
                print(out[-1500:])
    finally:
        sh(["git", "checkout", "--", "."], cwd=repo)
    prev = {}
    path = os.path.join(seed, "checks.json")
    if os.path.exists(path):
        prev = json.load(open(path))
    prev.update(results)
    json.dump(prev, open(path, "w"), indent=1)
    return 0


def run(seed, props):
    seed = os.path.abspath(seed)
    rc, out = sh(["git", "-C", REPO, "status", "--porcelain", "--untracked-files=no"])
    if out.strip():
        print("refusing: /repo has local modifications")
        return 2
    rc, out = sh(["git", "-C", REPO, "apply", os.path.join(seed, "patch.diff")])
    if rc != 0:
        print("patch does not apply:", out)
        return 2
    results = {}
    try:
        for p in props:
            t0 = time.time()
            rc, out = sh([os.path.join(VERIF, "check"), p, "quick"], cwd=VERIF, timeout=3600)
            viol = [l for l in out.splitlines() if l.startswith("VIOLATION")]
            sigs = [l.strip() for l in out.splitlines() if l.strip().startswith("sig=")]
            results[p] = dict(exit=rc, violations=len(viol), first_sigs=[s[:260] for s in sigs[:4]], wall=round(time.time() - t0, 1))
            print("%s: exit=%d violations=%d %s" % (p, rc, len(viol), (sigs[0][:200] if sigs else "")), flush=True)
    finally:
        sh(["git", "-C", REPO, "checkout", "--", "."])
    prev = {}
    path = os.path.join(seed, "checks.json")
    if os.path.exists(path):
        prev = json.load(open(path))
    prev.update(results)
    json.dump(prev, open(path, "w"), indent=1)
    return 0


def keep(seed, sid):
    seed = os.path.abspath(seed)
    dst = os.path.join(VERIF, "seeded", sid)
    os.makedirs(dst, exist_ok=True)
    for f in ("patch.diff", "demo.rs", "notes.md"):
        shutil.copy(os.path.join(seed, f), dst)
    meta = dict(id=sid)
    desc_file = os.path.join(os.path.dirname(os.path.dirname(seed.rstrip("/"))), "descriptions.json")
    if os.path.exists(desc_file):
        meta.update(json.load(open(desc_file)).get(sid, {}))
    for f in ("verify.json", "checks.json"):
        p = os.path.join(seed, f)
        if os.path.exists(p):
            meta[f.replace(".json", "")] = json.load(open(p))
            meta[f.replace(".json", "")].pop("demo_tail", None)
    json.dump(meta, open(os.path.join(dst, "meta.json"), "w"), indent=1)
    print("kept", dst)
    return 0


def table():
    rows = []
    base = os.path.join(VERIF, "seeded")
    for sid in sorted(os.listdir(base)):
        mp = os.path.join(base, sid, "meta.json")
        if not os.path.exists(mp):
            continue
        m = json.load(open(mp))
        caught = sorted(p for p, r in m.get("checks", {}).items() if r.get("exit") == 1)
        missed = sorted(p for p, r in m.get("checks", {}).items() if r.get("exit") == 0)
        rows.append((sid, m.get("property", "?"), m.get("change", ""), m.get("needs", ""), ", ".join(caught) or "-", ", ".join(missed) or "-"))
    out = ["# Seeded property-breaking changes", "",
           "Written by sub-agents that saw only the property text and a scratch worktree of /repo; each was confirmed by me",
           "(`seedtool.py verify`: the demonstration fails with the change and passes without, the repository's own suite passes",
           "three times with the change) and then run against the checks (`seedtool.py lane` / `run`). `meta.json` in each directory",
           "has the details (what was run, first violation signatures). None of these changes is ever committed to /repo.", "",
           "| id | property | change | needs in order to manifest | checks that raise a VIOLATION | checks run that stay silent (other properties) |",
           "|---|---|---|---|---|---|"]
    for r in rows:
        out.append("| " + " | ".join(x.replace("|", "/") for x in r) + " |")
    open(os.path.join(base, "README.md"), "w").write("\n".join(out) + "\n")
    print("wrote seeded/README.md with %d rows" % len(rows))
    return 0


if __name__ == "__main__":
    if sys.argv[1:] == ["table"]:
        sys.exit(table())
    a = sys.argv[1:]
    if len(a) >= 2 and a[0] == "verify":
        sys.exit(verify(a[1]))
    if len(a) >= 3 and a[0] == "run":
        sys.exit(run(a[1], a[2:]))
    if len(a) >= 3 and a[0] == "lane":
        sys.exit(lane(a[1], a[2:]))
    if len(a) == 3 and a[0] == "keep":
        sys.exit(keep(a[1], a[2]))
    print(__doc__)
    sys.exit(2)
