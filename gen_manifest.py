#!/usr/bin/env python3
"""Regenerates MANIFEST.json from properties_config.py (run after editing the configuration)."""
import json, os, subprocess, sys
sys.path.insert(0, os.path.dirname(os.path.abspath(__file__)))
from properties_config import PROPS, MANIFEST_TEXT, NOT_APPLICABLE

ids = [json.loads(l)["id"] for l in open(os.path.join(os.path.dirname(os.path.abspath(__file__)), "properties.jsonl"))]
hook_commits = subprocess.run(["git", "-C", "/repo", "log", "--format=%H %s"], stdout=subprocess.PIPE, text=True).stdout.splitlines()
hook_commits = [l.split()[0] for l in hook_commits if "verif hook" in l]
checks = []
for pid in ids:
    if pid not in PROPS:
        continue
    cfg = PROPS[pid]
    t = MANIFEST_TEXT[pid]
    checks.append(dict(
        property_id=pid,
        quick_cmd="./check %s quick" % pid,
        thorough_cmd="./check %s thorough" % pid,
        evidence_file="/verif/evidence/%s.json" % pid,
        replay_cmd_template="./check %s --replay {path}" % pid,
        engine=t["engine"],
        level_claimed=dict(category=cfg["level"], text=t["level_text"], design_ref=t["design_ref"]),
        level_note=t["level_note"],
        technique=t["technique"],
    ))
na = [dict(property_id=p, reason=NOT_APPLICABLE.get(p, "check not built yet (work in progress in this round)")) for p in ids if p not in PROPS]
doc = dict(
    version=1,
    setup_cmd="./check --setup",
    hooks=dict(
        guard="--cfg simple_sds_verif (bounds monitor H1) and --cfg simple_sds_verif_loom (loom atomic for the temp-file counter H2)",
        enable="RUSTFLAGS='--cfg simple_sds_verif' (set by ./check for every driver build); the loom build adds --cfg simple_sds_verif_loom",
        baseline_off_cmd="cd /repo && cargo test --workspace --no-fail-fast --offline",
        source_commits=hook_commits,
        add_only=True,
    ),
    engines=[
        dict(name="E-input", path="harness/vcore/src/enumr.rs + harness/drivers/src/bin", serves_properties=[p for p in ids if p in PROPS and MANIFEST_TEXT[p]["engine"] == "E-input"], kind_free_text="bounded exhaustive input enumeration (small scope + boundary alphabets) against reference models, on the real code"),
        dict(name="E-hist", path="harness/drivers/src/bin", serves_properties=[p for p in ids if p in PROPS and MANIFEST_TEXT[p]["engine"] == "E-hist"], kind_free_text="explicit-state / history exploration: BFS over operation sequences calling the real methods, reference model compared after every transition"),
        dict(name="E-fault", path="harness/vcore/src/faultio.rs + harness/drivers/src/bin", serves_properties=[p for p in ids if p in PROPS and MANIFEST_TEXT[p]["engine"] == "E-fault"], kind_free_text="every truncation point / write budget / file-size limit"),
        dict(name="E-sched", path="harness/loomshadow", serves_properties=[p for p in ids if p in PROPS and MANIFEST_TEXT[p]["engine"] == "E-sched"], kind_free_text="loom (DPOR over the C11 memory model) on the real temp_file_name"),
    ],
    checks=checks,
    not_applicable=na,
    notes="All checks rebuild the drivers against /repo's working tree (path dependency) in the configurations they need; see DESIGN.md.",
)
json.dump(doc, open(os.path.join(os.path.dirname(os.path.abspath(__file__)), "MANIFEST.json"), "w"), indent=1)
print("MANIFEST.json: %d checks, %d not_applicable" % (len(checks), len(na)))
