//! An independent codec for the simple-sds file format, written from SERIALIZATION.md alone.
//!
//! Nothing here calls into the library. Decoders return the logical content and push every
//! violated "must" of the document into `problems`. Encoders produce files from logical content
//! with the writer-side choices the document leaves open (support structures absent, low width of
//! sparse vectors, sample width of run-length vectors).

pub type Res<T> = Result<T, String>;

pub struct Reader<'a> {
    pub data: &'a [u8],
    pub pos: usize,
}

impl<'a> Reader<'a> {
    pub fn new(data: &'a [u8]) -> Self {
        Reader { data, pos: 0 }
    }

    /// An element is an unsigned 64-bit little-endian integer.
    pub fn element(&mut self) -> Res<u64> {
        if self.pos + 8 > self.data.len() {
            return Err(format!("spec: unexpected end of file at byte {}", self.pos));
        }
        let mut v = 0u64;
        for i in 0..8 {
            v |= (self.data[self.pos + i] as u64) << (8 * i);
        }
        self.pos += 8;
        Ok(v)
    }

    pub fn elements(&mut self, n: u64) -> Res<Vec<u64>> {
        if (n as u128) * 8 > (self.data.len() - self.pos) as u128 {
            return Err(format!("spec: vector of {} elements runs past the end of the file", n));
        }
        (0..n).map(|_| self.element()).collect()
    }

    pub fn at_end(&self) -> bool {
        self.pos == self.data.len()
    }
}

pub fn put_element(out: &mut Vec<u8>, v: u64) {
    for i in 0..8 {
        out.push((v >> (8 * i)) as u8);
    }
}

//-----------------------------------------------------------------------------
// Vectors, bytes, strings, optionals

pub fn read_vec_u64(r: &mut Reader) -> Res<Vec<u64>> {
    let n = r.element()?;
    r.elements(n)
}

pub fn write_vec_u64(out: &mut Vec<u8>, v: &[u64]) {
    put_element(out, v.len() as u64);
    for &x in v {
        put_element(out, x);
    }
}

pub fn read_vec_pair(r: &mut Reader) -> Res<Vec<(u64, u64)>> {
    let n = r.element()?;
    let e = r.elements(n.checked_mul(2).ok_or("spec: length overflow")?)?;
    Ok(e.chunks(2).map(|c| (c[0], c[1])).collect())
}

pub fn write_vec_pair(out: &mut Vec<u8>, v: &[(u64, u64)]) {
    put_element(out, v.len() as u64);
    for &(a, b) in v {
        put_element(out, a);
        put_element(out, b);
    }
}

pub fn read_bytes(r: &mut Reader, problems: &mut Vec<String>) -> Res<Vec<u8>> {
    let n = r.element()? as usize;
    let padded = n.checked_add(7).ok_or("spec: length overflow")? / 8 * 8;
    if padded > r.data.len() - r.pos {
        return Err("spec: byte vector runs past the end of the file".into());
    }
    let v = r.data[r.pos..r.pos + n].to_vec();
    if r.data[r.pos + n..r.pos + padded].iter().any(|&b| b != 0) {
        problems.push("byte vector padding is not zero".into());
    }
    r.pos += padded;
    Ok(v)
}

pub fn write_bytes(out: &mut Vec<u8>, v: &[u8]) {
    put_element(out, v.len() as u64);
    out.extend_from_slice(v);
    while out.len() % 8 != 0 {
        out.push(0);
    }
}

/// An optional structure: its length in elements, then the structure. Returned as raw elements
/// ("can be loaded ... as a vector of elements").
pub fn read_optional(r: &mut Reader) -> Res<Option<Vec<u64>>> {
    let n = r.element()?;
    if n == 0 {
        Ok(None)
    } else {
        Ok(Some(r.elements(n)?))
    }
}

pub fn write_optional(out: &mut Vec<u8>, v: Option<&[u64]>) {
    match v {
        None => put_element(out, 0),
        Some(e) => {
            put_element(out, e.len() as u64);
            for &x in e {
                put_element(out, x);
            }
        }
    }
}

//-----------------------------------------------------------------------------
// Raw bitvector, integer vector

#[derive(Clone, Debug, PartialEq, Eq)]
pub struct RawBits {
    pub len: u64,
    pub words: Vec<u64>,
}

impl RawBits {
    pub fn from_bools(b: &[bool]) -> RawBits {
        let mut words = vec![0u64; (b.len() + 63) / 64];
        for (i, &x) in b.iter().enumerate() {
            if x {
                words[i / 64] |= 1u64 << (i % 64);
            }
        }
        RawBits { len: b.len() as u64, words }
    }

    pub fn bit(&self, i: u64) -> bool {
        (self.words[(i / 64) as usize] >> (i % 64)) & 1 == 1
    }

    pub fn to_bools(&self) -> Vec<bool> {
        (0..self.len).map(|i| self.bit(i)).collect()
    }

    pub fn ones(&self) -> u64 {
        self.words.iter().map(|w| w.count_ones() as u64).sum()
    }

    /// Reads `width` bits starting at bit `off` (little-endian within and across elements).
    pub fn int(&self, off: u64, width: u64) -> u64 {
        let mut v = 0u64;
        for k in 0..width {
            if self.bit(off + k) {
                v |= 1u64 << k;
            }
        }
        v
    }
}

pub fn read_raw(r: &mut Reader, problems: &mut Vec<String>) -> Res<RawBits> {
    let len = r.element()?;
    let words = read_vec_u64(r)?;
    let need = (len as u128 + 63) / 64;
    if words.len() as u128 != need {
        problems.push(format!("raw bitvector of length {} has {} elements, needs {}", len, words.len(), need));
        return Err("spec: raw bitvector length mismatch".into());
    }
    if len % 64 != 0 {
        let last = *words.last().unwrap();
        if last >> (len % 64) != 0 {
            problems.push("raw bitvector: unused bits in the last element are not zero".into());
        }
    }
    Ok(RawBits { len, words })
}

pub fn write_raw(out: &mut Vec<u8>, raw: &RawBits) {
    put_element(out, raw.len);
    write_vec_u64(out, &raw.words);
}

#[derive(Clone, Debug, PartialEq, Eq)]
pub struct IntVec {
    pub width: u64,
    pub values: Vec<u64>,
}

pub fn read_int_vec(r: &mut Reader, problems: &mut Vec<String>) -> Res<IntVec> {
    let len = r.element()?;
    let width = r.element()?;
    if width == 0 || width > 64 {
        problems.push(format!("integer vector width {} is not in 1..=64", width));
        return Err("spec: bad width".into());
    }
    let raw = read_raw(r, problems)?;
    if raw.len as u128 != len as u128 * width as u128 {
        problems.push(format!("integer vector: raw length {} != len {} * width {}", raw.len, len, width));
        return Err("spec: integer vector length mismatch".into());
    }
    let values = (0..len).map(|i| raw.int(i * width, width)).collect();
    Ok(IntVec { width, values })
}

pub fn write_int_vec(out: &mut Vec<u8>, v: &IntVec) {
    let bits = v.values.len() as u64 * v.width;
    let mut words = vec![0u64; ((bits + 63) / 64) as usize];
    for (i, &x) in v.values.iter().enumerate() {
        let x = if v.width == 64 { x } else { x & ((1u64 << v.width) - 1) };
        for k in 0..v.width {
            if (x >> k) & 1 == 1 {
                let b = i as u64 * v.width + k;
                words[(b / 64) as usize] |= 1u64 << (b % 64);
            }
        }
    }
    put_element(out, v.values.len() as u64);
    put_element(out, v.width);
    write_raw(out, &RawBits { len: bits, words });
}

pub fn bit_len(x: u64) -> u64 {
    if x == 0 {
        1
    } else {
        64 - x.leading_zeros() as u64
    }
}

//-----------------------------------------------------------------------------
// Plain bitvector

#[derive(Clone, Debug, PartialEq, Eq)]
pub struct PlainBv {
    pub ones: u64,
    pub raw: RawBits,
    pub rank: Option<Vec<u64>>,
    pub select: Option<Vec<u64>>,
    pub select_zero: Option<Vec<u64>>,
}

pub fn read_plain(r: &mut Reader, problems: &mut Vec<String>) -> Res<PlainBv> {
    let ones = r.element()?;
    let raw = read_raw(r, problems)?;
    if raw.ones() != ones {
        problems.push(format!("bitvector: stored number of set bits {} != actual {}", ones, raw.ones()));
    }
    let rank = read_optional(r)?;
    let select = read_optional(r)?;
    let select_zero = read_optional(r)?;
    Ok(PlainBv { ones, raw, rank, select, select_zero })
}

/// Writes a bitvector with all three support structures absent.
pub fn write_plain_bare(out: &mut Vec<u8>, bits: &[bool]) {
    let raw = RawBits::from_bools(bits);
    put_element(out, raw.ones());
    write_raw(out, &raw);
    put_element(out, 0);
    put_element(out, 0);
    put_element(out, 0);
}

/// Writes a decoded bitvector back, keeping (`keep = true`) or dropping its support structures.
pub fn write_plain(out: &mut Vec<u8>, bv: &PlainBv, keep: bool) {
    put_element(out, bv.ones);
    write_raw(out, &bv.raw);
    if keep {
        write_optional(out, bv.rank.as_deref());
        write_optional(out, bv.select.as_deref());
        write_optional(out, bv.select_zero.as_deref());
    } else {
        put_element(out, 0);
        put_element(out, 0);
        put_element(out, 0);
    }
}

/// Writes a decoded bitvector back, keeping only the support structures selected by `mask`
/// (bit 0 rank, bit 1 select, bit 2 select_zero) - every subset is an admissible file.
pub fn write_plain_masked(out: &mut Vec<u8>, bv: &PlainBv, mask: u8) {
    put_element(out, bv.ones);
    write_raw(out, &bv.raw);
    write_optional(out, if mask & 1 != 0 { bv.rank.as_deref() } else { None });
    write_optional(out, if mask & 2 != 0 { bv.select.as_deref() } else { None });
    write_optional(out, if mask & 4 != 0 { bv.select_zero.as_deref() } else { None });
}

/// Rewrites a (library-written) sparse bitvector file so that its bucket bitvector keeps only the
/// support structures in `mask`. Everything else is copied element by element.
pub fn rewrite_sparse_supports(file: &[u8], mask: u8) -> Res<Vec<u8>> {
    let mut r = Reader::new(file);
    let mut problems = Vec::new();
    let len = r.element()?;
    let high = read_plain(&mut r, &mut problems)?;
    let rest = &file[r.pos..];
    let mut out = Vec::new();
    put_element(&mut out, len);
    write_plain_masked(&mut out, &high, mask);
    out.extend_from_slice(rest);
    Ok(out)
}

/// Rewrites a (library-written) plain wavelet matrix file so that level `i` keeps the supports in `masks[i % masks.len()]`.
pub fn rewrite_wm_supports(file: &[u8], masks: &[u8]) -> Res<Vec<u8>> {
    let mut r = Reader::new(file);
    let mut problems = Vec::new();
    let len = r.element()?;
    let (width, levels) = read_wm_core(&mut r, &mut problems)?;
    let rest = &file[r.pos..];
    let mut out = Vec::new();
    put_element(&mut out, len);
    put_element(&mut out, width);
    for (i, l) in levels.iter().enumerate() {
        write_plain_masked(&mut out, l, masks[i % masks.len()]);
    }
    out.extend_from_slice(rest);
    Ok(out)
}

//-----------------------------------------------------------------------------
// Sparse bitvector

#[derive(Clone, Debug, PartialEq, Eq)]
pub struct SparseFile {
    pub len: u64,
    pub width: u64,
    /// The sorted values (positions of set bits; duplicates possible for multisets).
    pub values: Vec<u64>,
}

/// Number of buckets the document demands: one for each high part that occurs in `0..n`.
pub fn sparse_buckets(n: u64, w: u64) -> u64 {
    if n == 0 {
        0
    } else {
        let top = n - 1;
        (if w >= 64 { 0 } else { top >> w }) + 1
    }
}

pub fn read_sparse(r: &mut Reader, problems: &mut Vec<String>) -> Res<SparseFile> {
    let len = r.element()?;
    let high = read_plain(r, problems)?;
    let low = read_int_vec(r, problems)?;
    let w = low.width;
    let m = low.values.len() as u64;
    if high.raw.ones() != m {
        problems.push(format!("sparse: high has {} set bits but low has {} items", high.raw.ones(), m));
        return Err("spec: sparse inconsistent".into());
    }
    let buckets = high.raw.len - m;
    if buckets != sparse_buckets(len, w) {
        problems.push(format!("sparse: {} buckets for length {} and width {}, the document requires exactly {}", buckets, len, w, sparse_buckets(len, w)));
    }
    // i-th item = low[i] + ((high.select(i) - i) << w)
    let mut values = Vec::with_capacity(m as usize);
    let mut i = 0u64;
    for p in 0..high.raw.len {
        if high.raw.bit(p) {
            let hi = (p - i) as u128;
            let v = low.values[i as usize] as u128 + (hi << w);
            if v > u64::MAX as u128 {
                problems.push("sparse: decoded value exceeds 64 bits".into());
            }
            values.push(v as u64);
            i += 1;
        }
    }
    Ok(SparseFile { len, width: w, values })
}

/// Encodes a sparse bitvector with low width `w` (any `w >= 1` is admissible), support structures absent.
pub fn write_sparse(out: &mut Vec<u8>, len: u64, values: &[u64], w: u64) {
    let buckets = sparse_buckets(len, w);
    let mut high = vec![false; (values.len() as u64 + buckets) as usize];
    let mut low = Vec::with_capacity(values.len());
    for (i, &v) in values.iter().enumerate() {
        let hi = if w >= 64 { 0 } else { v >> w };
        high[(hi + i as u64) as usize] = true;
        low.push(if w >= 64 { v } else { v & ((1u64 << w) - 1) });
    }
    put_element(out, len);
    write_plain_bare(out, &high);
    write_int_vec(out, &IntVec { width: w, values: low });
}

//-----------------------------------------------------------------------------
// Run-length encoded bitvector

#[derive(Clone, Debug, PartialEq, Eq)]
pub struct RlFile {
    pub len: u64,
    pub ones: u64,
    /// Maximal runs of set bits as decoded: (start, length).
    pub runs: Vec<(u64, u64)>,
    pub blocks: u64,
    /// Per block: (set bits, bits) encoded before the block.
    pub samples: Vec<(u64, u64)>,
    pub sample_width: u64,
    pub max_units_per_value: u64,
    pub greedy: bool,
}

fn code_len(v: u64) -> u64 {
    (bit_len(v) + 2) / 3
}

pub fn read_rl(r: &mut Reader, problems: &mut Vec<String>) -> Res<RlFile> {
    let len = r.element()?;
    let ones = r.element()?;
    let samples = read_int_vec(r, problems)?;
    let data = read_int_vec(r, problems)?;
    if data.width != 4 {
        problems.push(format!("rl: data width is {}, must be 4", data.width));
        return Err("spec: rl data width".into());
    }
    let units = &data.values;
    let blocks = (units.len() as u64 + 63) / 64;
    if samples.values.len() as u64 != 2 * blocks {
        problems.push(format!("rl: {} sample values for {} blocks", samples.values.len(), blocks));
        return Err("spec: rl samples".into());
    }
    let max_sample = samples.values.iter().copied().max().unwrap_or(0);
    if samples.width != bit_len(max_sample) {
        problems.push(format!("rl: sample width {} is not the minimal width {}", samples.width, bit_len(max_sample)));
    }
    let mut runs: Vec<(u64, u64)> = Vec::new();
    let mut pos: u128 = 0; // bits encoded so far
    let mut rank: u128 = 0;
    let mut max_units = 0u64;
    let mut greedy = true;
    for b in 0..blocks {
        if samples.values[2 * b as usize] as u128 != rank || samples.values[2 * b as usize + 1] as u128 != pos {
            problems.push(format!("rl: sample of block {} is ({}, {}), expected ({}, {})", b, samples.values[2 * b as usize], samples.values[2 * b as usize + 1], rank, pos));
        }
        let start = (b * 64) as usize;
        let end = ((b + 1) * 64).min(units.len() as u64) as usize;
        let is_last = b + 1 == blocks;
        let mut off = start;
        // Decode whole (n0, n1 - 1) pairs; a closed block may end with zero padding.
        while off < end {
            // Padding: in a closed block, the remaining units are all 0 and cannot hold a run that
            // belongs here only if the *next* block starts with the run. A (0, 0) pair would be a
            // gap of 0 and a run of 1, which is never produced after a run (runs are maximal), so
            // all-zero remainder of a closed block is padding.
            if !is_last && units[off..end].iter().all(|&u| u == 0) && !(off == start) {
                break;
            }
            let mut decode = |off: &mut usize| -> Res<u128> {
                let mut v: u128 = 0;
                let mut shift = 0u32;
                let mut n = 0u64;
                loop {
                    if *off >= end {
                        return Err("spec: rl value crosses a block boundary".to_string());
                    }
                    let u = units[*off];
                    *off += 1;
                    n += 1;
                    v |= ((u & 7) as u128) << shift;
                    shift += 3;
                    if u & 8 == 0 {
                        break;
                    }
                }
                if n > max_units {
                    max_units = n;
                }
                Ok(v)
            };
            let pair_start = off;
            let gap = match decode(&mut off) {
                Ok(v) => v,
                Err(e) => {
                    problems.push(e.clone());
                    return Err(e);
                }
            };
            let l1 = match decode(&mut off) {
                Ok(v) => v,
                Err(e) => {
                    problems.push(e.clone());
                    return Err(e);
                }
            };
            let _ = pair_start;
            let s = pos + gap;
            let l = l1 + 1;
            if gap == 0 && !runs.is_empty() {
                problems.push(format!("rl: run at {} is adjacent to the previous run (runs must be maximal)", s));
            }
            if s + l > len as u128 {
                problems.push(format!("rl: run ({}, {}) exceeds the length {}", s, l, len));
                return Err("spec: rl run past the end".into());
            }
            runs.push((s as u64, l as u64));
            pos = s + l;
            rank += l;
        }
        if is_last {
            if off != end {
                problems.push("rl: final block contains padding".into());
            }
        } else if off < end && units[off..end].iter().any(|&u| u != 0) {
            problems.push(format!("rl: non-zero padding in block {}", b));
        }
        let _ = &mut greedy;
    }
    if rank != ones as u128 {
        problems.push(format!("rl: header says {} set bits, the runs have {}", ones, rank));
    }
    // Greedy packing (informational): a block is closed only when the next pair does not fit.
    {
        let mut used = 0u64;
        let mut prev_end: u128 = 0;
        let mut blk = 0u64;
        for &(s, l) in &runs {
            let need = code_len((s as u128 - prev_end) as u64) + code_len(l - 1);
            if used + need > 64 {
                blk += 1;
                used = 0;
            }
            used += need;
            prev_end = s as u128 + l as u128;
        }
        let expect_blocks = if runs.is_empty() { 0 } else { blk + 1 };
        if expect_blocks != blocks {
            greedy = false;
        }
    }
    let sample_pairs = samples.values.chunks(2).map(|c| (c[0], c[1])).collect();
    Ok(RlFile { len, ones, runs, blocks, samples: sample_pairs, sample_width: samples.width, max_units_per_value: max_units, greedy })
}

/// Encodes a run-length bitvector from maximal runs; `extra_sample_width` is added to the minimal
/// sample width (capped at 64).
pub fn write_rl(out: &mut Vec<u8>, len: u64, runs: &[(u64, u64)], extra_sample_width: u64) {
    let mut units: Vec<u64> = Vec::new();
    let mut samples: Vec<u64> = Vec::new();
    let mut prev_end: u64 = 0;
    let mut rank: u64 = 0;
    let mut blocks = 0usize;
    let encode = |v: u64, out: &mut Vec<u64>| {
        let mut v = v;
        while v > 7 {
            out.push((v & 7) | 8);
            v >>= 3;
        }
        out.push(v);
    };
    for &(s, l) in runs {
        let gap = s - prev_end;
        let need = (code_len(gap) + code_len(l - 1)) as usize;
        if units.len() + need > blocks * 64 {
            while units.len() < blocks * 64 {
                units.push(0);
            }
            samples.push(rank);
            samples.push(prev_end);
            blocks += 1;
        }
        encode(gap, &mut units);
        encode(l - 1, &mut units);
        prev_end = s + l;
        rank += l;
    }
    let max_sample = samples.iter().copied().max().unwrap_or(0);
    let sw = (bit_len(max_sample) + extra_sample_width).min(64);
    put_element(out, len);
    put_element(out, rank);
    write_int_vec(out, &IntVec { width: sw, values: samples });
    write_int_vec(out, &IntVec { width: 4, values: units });
}

//-----------------------------------------------------------------------------
// Wavelet matrix

#[derive(Clone, Debug, PartialEq, Eq)]
pub struct WmFile {
    pub len: u64,
    pub width: u64,
    pub values: Vec<u64>,
}

pub fn read_wm_core(r: &mut Reader, problems: &mut Vec<String>) -> Res<(u64, Vec<PlainBv>)> {
    let width = r.element()?;
    if width == 0 || width > 64 {
        problems.push(format!("wm core: width {}", width));
        return Err("spec: wm width".into());
    }
    let mut levels = Vec::new();
    for _ in 0..width {
        levels.push(read_plain(r, problems)?);
    }
    for l in &levels {
        if l.raw.len != levels[0].raw.len {
            problems.push("wm core: levels have different lengths".into());
            return Err("spec: wm levels".into());
        }
    }
    Ok((width, levels))
}

/// Decodes the values by walking down the levels as the document describes.
pub fn wm_values(width: u64, levels: &[PlainBv]) -> Vec<u64> {
    let n = levels[0].raw.len;
    let rank1 = |bv: &PlainBv, i: u64| -> u64 { (0..i).filter(|&k| bv.raw.bit(k)).count() as u64 };
    (0..n)
        .map(|i| {
            let mut idx = i;
            let mut v = 0u64;
            for (level, bv) in levels.iter().enumerate() {
                if bv.raw.bit(idx) {
                    v += 1u64 << (width - 1 - level as u64);
                    idx = (bv.raw.len - bv.raw.ones()) + rank1(bv, idx);
                } else {
                    idx -= rank1(bv, idx);
                }
            }
            v
        })
        .collect()
}

pub fn read_wm(r: &mut Reader, problems: &mut Vec<String>) -> Res<WmFile> {
    let len = r.element()?;
    let (width, levels) = read_wm_core(r, problems)?;
    if levels[0].raw.len != len {
        problems.push("wm: core length differs from len".into());
    }
    let first = read_int_vec(r, problems)?;
    let values = wm_values(width, &levels);
    // Checks of `first`: defined over the alphabet 0..=max; position of the first occurrence in the
    // reordered vector, or len if absent; minimal width.
    let max = values.iter().copied().max().unwrap_or(0);
    if width != bit_len(max) {
        problems.push(format!("wm: width {} is not bit_len(max = {})", width, max));
    }
    if first.values.len() as u64 != max + 1 {
        problems.push(format!("wm: first has {} entries, alphabet has {}", first.values.len(), max + 1));
    } else {
        let mut order: Vec<u64> = values.clone();
        order.sort_by_key(|v| reverse_low(*v, width)); // stable
        for v in 0..=max {
            let want = order.iter().position(|&x| x == v).map(|p| p as u64).unwrap_or(len);
            if first.values[v as usize] != want {
                problems.push(format!("wm: first[{}] = {}, expected {}", v, first.values[v as usize], want));
            }
        }
        let m = first.values.iter().copied().max().unwrap_or(0);
        if first.width != bit_len(m) {
            problems.push(format!("wm: first is not bit-packed to the minimal width ({} vs {})", first.width, bit_len(m)));
        }
    }
    Ok(WmFile { len, width, values })
}

pub fn reverse_low(v: u64, width: u64) -> u64 {
    let mut r = 0u64;
    for k in 0..width {
        if (v >> k) & 1 == 1 {
            r |= 1u64 << (width - 1 - k);
        }
    }
    r
}

/// The level bit sequences of the wavelet matrix of `values` (by the document's construction).
pub fn wm_levels(values: &[u64]) -> (u64, Vec<Vec<bool>>) {
    let max = values.iter().copied().max().unwrap_or(0);
    let width = bit_len(max);
    let mut cur: Vec<u64> = values.to_vec();
    let mut levels = Vec::new();
    for level in 0..width {
        let bit = 1u64 << (width - 1 - level);
        let bits: Vec<bool> = cur.iter().map(|v| v & bit != 0).collect();
        let mut next: Vec<u64> = cur.iter().copied().filter(|v| v & bit == 0).collect();
        next.extend(cur.iter().copied().filter(|v| v & bit != 0));
        cur = next;
        levels.push(bits);
    }
    (width, levels)
}

/// Encodes a plain wavelet matrix with support-free level bitvectors.
pub fn write_wm(out: &mut Vec<u8>, values: &[u64]) {
    let (width, levels) = wm_levels(values);
    let len = values.len() as u64;
    put_element(out, len);
    put_element(out, width);
    for l in &levels {
        write_plain_bare(out, l);
    }
    let max = values.iter().copied().max().unwrap_or(0);
    let mut order: Vec<u64> = values.to_vec();
    order.sort_by_key(|v| reverse_low(*v, width));
    let first: Vec<u64> = (0..=max).map(|v| order.iter().position(|&x| x == v).map(|p| p as u64).unwrap_or(len)).collect();
    let m = first.iter().copied().max().unwrap_or(0);
    write_int_vec(out, &IntVec { width: bit_len(m), values: first });
}

/// Encodes a wavelet matrix core with support-free level bitvectors.
pub fn write_wm_core(out: &mut Vec<u8>, values: &[u64]) {
    let (width, levels) = wm_levels(values);
    put_element(out, width);
    for l in &levels {
        write_plain_bare(out, l);
    }
}
