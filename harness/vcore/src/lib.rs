//! Shared machinery for the simple-sds model-checking harness.
//!
//! This crate deliberately does **not** depend on simple-sds: everything here is either an
//! exploration engine, a naive reference model used as an oracle, or plumbing (worker protocol,
//! evidence counters, fault-injecting readers and writers, the independent format codec).

pub mod ctx;
pub mod enumr;
pub mod faultio;
pub mod model;
pub mod spec;

pub use ctx::{guard, run_driver, Ctx, Tier};
pub use serde_json::{json, Value};
