//! Worker-side context: sharding, counters, violation reporting, panic capture.
//!
//! A driver binary is always run as a *worker* by /verif/check (the coordinator):
//!
//! ```text
//! cXX worker            explore this worker's shard of the tier's space
//! cXX replay <file>     run exactly the case stored in <file> (a JSON value), nothing else
//! ```
//!
//! Parameters come from the environment (VERIF_TIER, VERIF_SEED, VERIF_SHARD, VERIF_NSHARDS,
//! VERIF_BUILD, VERIF_TRACE, VERIF_MONITOR, VERIF_SCRATCH). Results go to stdout as lines
//! `@@<json>`; the coordinator merges them into the evidence file.

use serde_json::{json, Value};
use std::cell::RefCell;
use std::collections::hash_map::DefaultHasher;
use std::collections::{BTreeMap, BTreeSet, HashSet};
use std::fmt::Debug;
use std::hash::{Hash, Hasher};
use std::io::Write;
use std::panic::{self, AssertUnwindSafe};
use std::path::PathBuf;
use std::time::Instant;

#[derive(Clone, Copy, Debug, PartialEq, Eq)]
pub enum Tier {
    Quick,
    Thorough,
}

impl Tier {
    pub fn is_thorough(self) -> bool {
        self == Tier::Thorough
    }
    /// Picks the quick or the thorough value of a bound.
    pub fn pick<T>(self, quick: T, thorough: T) -> T {
        match self {
            Tier::Quick => quick,
            Tier::Thorough => thorough,
        }
    }
}

thread_local! {
    static LAST_PANIC: RefCell<Option<String>> = const { RefCell::new(None) };
}

// Watchdog: milliseconds (since process start, +1) at which the current case began; 0 = no case running.
static CASE_START_MS: std::sync::atomic::AtomicU64 = std::sync::atomic::AtomicU64::new(0);
/// Number of cases announced so far; mirrored into a shared mapping of `$VERIF_SCRATCH/announce.cnt` so that the
/// coordinator can read it after the process has died in any way (panic, signal, watchdog). A re-run with
/// `VERIF_TRACE_AT=<n>` prints exactly the n-th announced case: pinning costs one ordinary run.
static ANNOUNCED: std::sync::atomic::AtomicU64 = std::sync::atomic::AtomicU64::new(0);
static ANNOUNCE_MIRROR: std::sync::atomic::AtomicPtr<u64> = std::sync::atomic::AtomicPtr::new(std::ptr::null_mut());

fn map_announce_mirror(scratch: &std::path::Path) {
    use std::os::unix::io::AsRawFd;
    let _ = std::fs::create_dir_all(scratch);
    if let Ok(f) = std::fs::OpenOptions::new().read(true).write(true).create(true).truncate(true).open(scratch.join("announce.cnt")) {
        if f.set_len(8).is_ok() {
            let p = unsafe { libc::mmap(std::ptr::null_mut(), 8, libc::PROT_READ | libc::PROT_WRITE, libc::MAP_SHARED, f.as_raw_fd(), 0) };
            if p != libc::MAP_FAILED {
                ANNOUNCE_MIRROR.store(p as *mut u64, std::sync::atomic::Ordering::Relaxed);
            }
        }
    }
}
static PROCESS_START: std::sync::OnceLock<Instant> = std::sync::OnceLock::new();

fn now_ms() -> u64 {
    PROCESS_START.get_or_init(Instant::now).elapsed().as_millis() as u64 + 1
}

/// A library call that does not return is a failure to give the defined answer. Every case announces
/// itself; if one case runs longer than the limit (far above anything a correct library needs), the
/// worker reports a hang and exits with status 3 so that the coordinator can pin and replay the case.
fn spawn_watchdog(limit_s: u64, build: String) {
    let _ = now_ms();
    std::thread::spawn(move || loop {
        std::thread::sleep(std::time::Duration::from_millis(500));
        let start = CASE_START_MS.load(std::sync::atomic::Ordering::Relaxed);
        if start != 0 && now_ms().saturating_sub(start) > limit_s * 1000 {
            emit(&json!({"t": "hang", "limit_s": limit_s, "build": build}));
            std::process::exit(3);
        }
    });
}

fn install_silent_hook() {
    panic::set_hook(Box::new(|info| {
        let msg = if let Some(s) = info.payload().downcast_ref::<&str>() {
            s.to_string()
        } else if let Some(s) = info.payload().downcast_ref::<String>() {
            s.clone()
        } else {
            "<non-string panic>".to_string()
        };
        let loc = info.location().map(|l| format!(" @{}:{}", l.file(), l.line())).unwrap_or_default();
        LAST_PANIC.with(|p| *p.borrow_mut() = Some(format!("{}{}", msg, loc)));
    }));
}

/// Runs `f`, turning a panic into `Err(message)`.
pub fn guard<T>(f: impl FnOnce() -> T) -> Result<T, String> {
    match panic::catch_unwind(AssertUnwindSafe(f)) {
        Ok(v) => Ok(v),
        Err(_) => Err(LAST_PANIC.with(|p| p.borrow_mut().take()).unwrap_or_else(|| "<panic>".to_string())),
    }
}

/// Coarse class of a panic message; part of violation signatures (never a line number).
pub fn panic_class(msg: &str) -> &'static str {
    if msg.contains("VERIF-OOB") {
        "oob"
    } else if msg.contains("overflow") {
        "overflow"
    } else if msg.contains("out of bounds") || msg.contains("out of range") || msg.contains("is out of") {
        "index"
    } else if msg.contains("unwrap") {
        "unwrap"
    } else if msg.contains("assertion") || msg.contains("must be") {
        "assert"
    } else {
        "other"
    }
}

pub fn hash_of<K: Hash + ?Sized>(key: &K) -> u64 {
    let mut h = DefaultHasher::new(); // fixed keys: deterministic across runs
    key.hash(&mut h);
    h.finish()
}

pub struct Ctx {
    pub property: String,
    pub tier: Tier,
    pub seed: u64,
    pub shard: u64,
    pub nshards: u64,
    pub build: String,
    pub trace: bool,
    /// In trace mode: print only the case with this announce number (0 = every case).
    pub trace_at: u64,
    /// Monitor mode (C08): only out-of-bounds outcomes count; wrong answers / ordinary panics are ignored.
    pub monitor: bool,
    pub replaying: bool,
    pub scratch: PathBuf,
    pub evals: u64,
    nontrivial: HashSet<u64>,
    nontrivial_extra: u64,
    counters: BTreeMap<String, u64>,
    sets: BTreeMap<String, BTreeSet<String>>,
    samples: Vec<Value>,
    sample_tags: BTreeMap<String, u64>,
    viol_sigs: BTreeMap<String, u64>,
    pub states: u64,
    pub transitions: u64,
    pub ignored_in_monitor: u64,
    start: Instant,
}

fn env_u64(name: &str, default: u64) -> u64 {
    std::env::var(name).ok().and_then(|s| s.parse().ok()).unwrap_or(default)
}

impl Ctx {
    fn from_env(property: &str) -> Ctx {
        let tier = match std::env::var("VERIF_TIER").as_deref() {
            Ok("thorough") => Tier::Thorough,
            _ => Tier::Quick,
        };
        let scratch = std::env::var("VERIF_SCRATCH").map(PathBuf::from).unwrap_or_else(|_| {
            let mut p = std::env::temp_dir();
            p.push(format!("ssds-verif.{}", std::process::id()));
            p
        });
        let _ = std::fs::create_dir_all(&scratch);
        Ctx {
            property: property.to_string(),
            tier,
            seed: env_u64("VERIF_SEED", 0),
            shard: env_u64("VERIF_SHARD", 0),
            nshards: env_u64("VERIF_NSHARDS", 1).max(1),
            build: std::env::var("VERIF_BUILD").unwrap_or_else(|_| "unknown".into()),
            trace: std::env::var("VERIF_TRACE").map(|v| v == "1").unwrap_or(false),
            trace_at: env_u64("VERIF_TRACE_AT", 0),
            monitor: std::env::var("VERIF_MONITOR").map(|v| !v.is_empty() && v != "0").unwrap_or(false),
            replaying: false,
            scratch,
            evals: 0,
            nontrivial: HashSet::new(),
            nontrivial_extra: 0,
            counters: BTreeMap::new(),
            sets: BTreeMap::new(),
            samples: Vec::new(),
            sample_tags: BTreeMap::new(),
            viol_sigs: BTreeMap::new(),
            states: 0,
            transitions: 0,
            ignored_in_monitor: 0,
            start: Instant::now(),
        }
    }

    /// A 64-bit pattern derived from the seed: the one extra value every value alphabet gets.
    pub fn seed_pattern(&self) -> u64 {
        let mut x = self.seed.wrapping_add(0x9E37_79B9_7F4A_7C15);
        x = (x ^ (x >> 30)).wrapping_mul(0xBF58_476D_1CE4_E5B9);
        x = (x ^ (x >> 27)).wrapping_mul(0x94D0_49BB_1331_11EB);
        x ^ (x >> 31)
    }

    /// Shard membership by case key: identical cases always land in the same shard, so per-shard
    /// distinct counts add up exactly. In replay mode every case is "mine".
    pub fn mine<K: Hash + ?Sized>(&self, key: &K) -> bool {
        self.replaying || self.nshards <= 1 || hash_of(key) % self.nshards == self.shard
    }

    /// Shard membership by plain index (for enumerations that never repeat a case).
    pub fn mine_index(&self, index: u64) -> bool {
        self.replaying || self.nshards <= 1 || index % self.nshards == self.shard
    }

    /// In trace mode, announces the case about to run (so a fatal signal can be pinned to it).
    #[inline]
    pub fn announce(&self, case: impl FnOnce() -> Value) {
        CASE_START_MS.store(now_ms(), std::sync::atomic::Ordering::Relaxed);
        let n = ANNOUNCED.fetch_add(1, std::sync::atomic::Ordering::Relaxed) + 1;
        let mirror = ANNOUNCE_MIRROR.load(std::sync::atomic::Ordering::Relaxed);
        if !mirror.is_null() {
            unsafe { std::ptr::write_volatile(mirror, n) };
        }
        if self.trace && (self.trace_at == 0 || self.trace_at == n) {
            let mut e = std::io::stderr().lock();
            let _ = writeln!(e, "CASE {}", case());
            let _ = e.flush();
        }
    }

    #[inline]
    pub fn eval(&mut self) {
        self.evals += 1;
    }

    #[inline]
    pub fn evals_add(&mut self, n: u64) {
        self.evals += n;
    }

    /// Records a distinct non-trivial case by key (deduplicated).
    pub fn nontrivial<K: Hash + ?Sized>(&mut self, key: &K) {
        self.nontrivial.insert(hash_of(key));
    }

    /// Records `n` cases that are distinct by construction (e.g. nodes of a history tree).
    pub fn nontrivial_by_construction(&mut self, n: u64) {
        self.nontrivial_extra += n;
    }

    pub fn count(&mut self, name: &str, n: u64) {
        *self.counters.entry(name.to_string()).or_insert(0) += n;
    }

    pub fn count_max(&mut self, name: &str, n: u64) {
        let e = self.counters.entry(name.to_string()).or_insert(0);
        if n > *e {
            *e = n;
        }
    }

    pub fn note(&mut self, set: &str, item: impl ToString) {
        let s = self.sets.entry(set.to_string()).or_default();
        if s.len() < 256 {
            s.insert(item.to_string());
        }
    }

    /// Keeps the first few cases and then exponentially spaced ones as written-out samples.
    pub fn sample(&mut self, case: impl FnOnce() -> Value) {
        self.sample_tagged("", case);
    }

    /// Like [`Ctx::sample`], with a separate budget per tag (family of cases).
    pub fn sample_tagged(&mut self, tag: &str, case: impl FnOnce() -> Value) {
        let n = self.sample_tags.entry(tag.to_string()).or_insert(0);
        *n += 1;
        if *n <= 2 || (*n >= 1024 && n.is_power_of_two() && *n <= (1 << 20)) {
            let v = case();
            self.samples.push(if tag.is_empty() { v } else { json!({"family": tag, "case": v}) });
        }
    }

    /// Reports a violation. Only the first case of each signature is written out in full.
    pub fn violation(&mut self, sig: &str, case: Value, detail: Value) {
        // Monitor mode (C08) reports out-of-bounds outcomes only, whoever raises the violation.
        if self.monitor && !(sig.ends_with("/panic(oob)") || sig.ends_with("/oob")) {
            self.ignored_in_monitor += 1;
            return;
        }
        let n = self.viol_sigs.entry(sig.to_string()).or_insert(0);
        *n += 1;
        if *n == 1 {
            emit(&json!({"t": "viol", "sig": sig, "case": case, "detail": detail, "build": self.build}));
        }
    }

    /// Compares the outcome of a guarded library call with the reference answer.
    ///
    /// `op` names the structure and operation (plus an input-class predicate where useful); the
    /// signature is `op/<kind>` with kind in {wrong, panic(<class>)}.
    pub fn expect<T: PartialEq + Debug>(&mut self, op: impl FnOnce() -> String, got: Result<T, String>, want: &T, case: impl FnOnce() -> Value) -> bool {
        self.evals += 1;
        match got {
            Ok(ref v) if v == want => true,
            Ok(v) => {
                if self.monitor {
                    self.ignored_in_monitor += 1;
                } else {
                    self.violation(&format!("{}/wrong", op()), case(), json!({"observed": format!("{:?}", v), "expected": format!("{:?}", want)}));
                }
                false
            }
            Err(msg) => {
                self.panic_violation(&op(), &msg, Some(format!("{:?}", want)), case);
                false
            }
        }
    }

    /// A library call panicked where the property defines an answer (or defines "no panic").
    pub fn panic_violation(&mut self, op: &str, msg: &str, expected: Option<String>, case: impl FnOnce() -> Value) {
        let class = panic_class(msg);
        if self.monitor && class != "oob" {
            self.ignored_in_monitor += 1;
            return;
        }
        self.violation(&format!("{}/panic({})", op, class), case(), json!({"observed": format!("panic: {}", msg), "expected": expected}));
    }

    /// For calls that may legitimately panic (documented): only an out-of-bounds hook hit is a violation.
    pub fn allow_panic<T>(&mut self, op: impl FnOnce() -> String, got: Result<T, String>, case: impl FnOnce() -> Value) -> Option<T> {
        self.evals += 1;
        match got {
            Ok(v) => Some(v),
            Err(msg) => {
                if panic_class(&msg) == "oob" {
                    self.violation(&format!("{}/panic(oob)", op()), case(), json!({"observed": format!("panic: {}", msg)}));
                }
                None
            }
        }
    }

    /// A memory-safety condition (e.g. a view must lie inside the mapping it borrows from). Unlike
    /// [`Ctx::require`] a failure is an out-of-bounds outcome and therefore also counts in monitor mode.
    pub fn require_in_bounds(&mut self, op: impl FnOnce() -> String, ok: bool, case: impl FnOnce() -> Value, detail: impl FnOnce() -> Value) -> bool {
        self.evals += 1;
        if !ok {
            self.violation(&format!("{}/oob", op()), case(), detail());
        }
        ok
    }

    /// A condition that must hold; `detail` describes the mismatch.
    pub fn require(&mut self, op: impl FnOnce() -> String, ok: bool, case: impl FnOnce() -> Value, detail: impl FnOnce() -> Value) -> bool {
        self.evals += 1;
        if !ok {
            if self.monitor {
                self.ignored_in_monitor += 1;
            } else {
                self.violation(&format!("{}/wrong", op()), case(), detail());
            }
        }
        ok
    }

    pub fn elapsed(&self) -> f64 {
        self.start.elapsed().as_secs_f64()
    }

    fn finish(&mut self, hook_hits: u64) {
        let sets: BTreeMap<String, Vec<String>> = self.sets.iter().map(|(k, v)| (k.clone(), v.iter().cloned().collect())).collect();
        emit(&json!({
            "t": "done",
            "build": self.build,
            "shard": self.shard,
            "evals": self.evals,
            "distinct": self.nontrivial.len() as u64 + self.nontrivial_extra,
            "states": self.states,
            "transitions": self.transitions,
            "counters": self.counters,
            "sets": sets,
            "samples": self.samples,
            "violations": self.viol_sigs,
            "ignored_in_monitor": self.ignored_in_monitor,
            "hook_hits": hook_hits,
            "wall_s": self.elapsed(),
        }));
    }
}

fn emit(v: &Value) {
    let mut o = std::io::stdout().lock();
    let _ = writeln!(o, "@@{}", v);
    let _ = o.flush();
}

/// Entry point of every driver binary.
///
/// * `explore`: enumerates this worker's shard and checks every case.
/// * `replay`: runs exactly one recorded case.
/// * `hook_hits`: reads the bounds-monitor hit counter of the library build (0 if hooks are off).
pub fn run_driver(property: &str, explore: impl FnOnce(&mut Ctx), replay: impl FnOnce(&mut Ctx, &Value), hook_hits: impl Fn() -> u64) {
    install_silent_hook();
    let args: Vec<String> = std::env::args().collect();
    let mut ctx = Ctx::from_env(property);
    let limit = env_u64("VERIF_CASE_LIMIT_S", if ctx.tier.is_thorough() { 900 } else { 90 });
    spawn_watchdog(limit, ctx.build.clone());
    match args.get(1).map(|s| s.as_str()) {
        Some("worker") => {
            map_announce_mirror(&ctx.scratch);
            let r = guard(|| explore(&mut ctx));
            CASE_START_MS.store(0, std::sync::atomic::Ordering::Relaxed);
            if let Err(msg) = r {
                emit(&json!({"t": "harness_panic", "msg": msg, "build": ctx.build, "shard": ctx.shard}));
                ctx.finish(hook_hits());
                std::process::exit(2);
            }
            ctx.finish(hook_hits());
        }
        Some("replay") => {
            let path = args.get(2).expect("replay needs a file");
            let text = std::fs::read_to_string(path).expect("cannot read the case file");
            let case: Value = serde_json::from_str(&text).expect("case file is not JSON");
            ctx.replaying = true;
            ctx.nshards = 1;
            CASE_START_MS.store(now_ms(), std::sync::atomic::Ordering::Relaxed);
            let r = guard(|| replay(&mut ctx, &case));
            CASE_START_MS.store(0, std::sync::atomic::Ordering::Relaxed);
            if let Err(msg) = r {
                emit(&json!({"t": "harness_panic", "msg": msg, "build": ctx.build}));
                ctx.finish(hook_hits());
                std::process::exit(2);
            }
            ctx.finish(hook_hits());
        }
        _ => {
            eprintln!("usage: {} worker | replay <case.json>   (parameters via VERIF_* environment)", args[0]);
            std::process::exit(2);
        }
    }
    let _ = std::fs::remove_dir_all(&ctx.scratch);
}
