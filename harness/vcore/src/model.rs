//! Reference models (oracles). Independent of the library; arithmetic in u128 so that
//! positions up to usize::MAX and `v + 1` never overflow.

/// A bit sequence as maximal runs of set bits. Serves plain, sparse and run-length bitvectors.
#[derive(Clone, Debug, PartialEq, Eq, Hash)]
pub struct Bits {
    pub len: u128,
    /// Maximal runs `(start, length)`, sorted, non-adjacent, length >= 1.
    pub runs: Vec<(u128, u128)>,
    /// `cum[i]` = number of set bits before run `i`; `cum[runs.len()]` = total.
    cum: Vec<u128>,
}

impl Bits {
    /// Builds from arbitrary non-overlapping runs in increasing order (adjacent runs are merged, empty runs dropped).
    pub fn from_runs(len: u128, input: &[(u128, u128)]) -> Bits {
        let mut runs: Vec<(u128, u128)> = Vec::new();
        for &(s, l) in input {
            if l == 0 {
                continue;
            }
            if let Some(last) = runs.last_mut() {
                assert!(s >= last.0 + last.1, "model: runs overlap or are out of order");
                if last.0 + last.1 == s {
                    last.1 += l;
                    continue;
                }
            }
            runs.push((s, l));
        }
        if let Some(last) = runs.last() {
            assert!(last.0 + last.1 <= len, "model: run exceeds the length");
        }
        let mut cum = Vec::with_capacity(runs.len() + 1);
        let mut c = 0u128;
        for r in &runs {
            cum.push(c);
            c += r.1;
        }
        cum.push(c);
        Bits { len, runs, cum }
    }

    pub fn from_bools(b: &[bool]) -> Bits {
        let mut runs = Vec::new();
        let mut i = 0;
        while i < b.len() {
            if b[i] {
                let s = i;
                while i < b.len() && b[i] {
                    i += 1;
                }
                runs.push((s as u128, (i - s) as u128));
            } else {
                i += 1;
            }
        }
        Bits::from_runs(b.len() as u128, &runs)
    }

    /// From the low `len` bits of `word` (bit i of the sequence = bit i of the word).
    pub fn from_word(word: u64, len: usize) -> Bits {
        let b: Vec<bool> = (0..len).map(|i| (word >> i) & 1 == 1).collect();
        Bits::from_bools(&b)
    }

    pub fn from_positions(len: u128, pos: &[u128]) -> Bits {
        let runs: Vec<(u128, u128)> = pos.iter().map(|&p| (p, 1)).collect();
        Bits::from_runs(len, &runs)
    }

    pub fn ones(&self) -> u128 {
        *self.cum.last().unwrap()
    }

    pub fn zeros(&self) -> u128 {
        self.len - self.ones()
    }

    // Index of the first run whose start is > i.
    fn runs_starting_at_or_before(&self, i: u128) -> usize {
        self.runs.partition_point(|r| r.0 <= i)
    }

    pub fn get(&self, i: u128) -> bool {
        let k = self.runs_starting_at_or_before(i);
        k > 0 && i < self.runs[k - 1].0 + self.runs[k - 1].1
    }

    /// Number of set bits at positions `< i` (for any `i`, also beyond the length).
    pub fn rank(&self, i: u128) -> u128 {
        if i == 0 {
            return 0;
        }
        // runs with start < i
        let k = self.runs.partition_point(|r| r.0 < i);
        if k == 0 {
            return 0;
        }
        let (s, l) = self.runs[k - 1];
        self.cum[k - 1] + l.min(i - s)
    }

    pub fn rank_zero(&self, i: u128) -> u128 {
        let i = i.min(self.len);
        i - self.rank(i)
    }

    pub fn select(&self, r: u128) -> Option<u128> {
        if r >= self.ones() {
            return None;
        }
        // last run with cum <= r
        let k = self.cum.partition_point(|&c| c <= r) - 1;
        Some(self.runs[k].0 + (r - self.cum[k]))
    }

    pub fn select_zero(&self, r: u128) -> Option<u128> {
        if r >= self.zeros() {
            return None;
        }
        // zeros before run k = runs[k].0 - cum[k]; find the number of runs that lie entirely before the answer:
        // runs k with (zeros before run k) <= r.
        let (mut lo, mut hi) = (0usize, self.runs.len());
        while lo < hi {
            let mid = lo + (hi - lo) / 2;
            if self.runs[mid].0 - self.cum[mid] <= r {
                lo = mid + 1;
            } else {
                hi = mid;
            }
        }
        Some(r + self.cum[lo])
    }

    /// Largest set position `<= v` with its rank.
    pub fn pred(&self, v: u128) -> Option<(u128, u128)> {
        let k = self.runs_starting_at_or_before(v);
        if k == 0 {
            return None;
        }
        let (s, l) = self.runs[k - 1];
        let p = v.min(s + l - 1);
        Some((self.cum[k - 1] + (p - s), p))
    }

    /// Smallest set position `>= v` with its rank.
    pub fn succ(&self, v: u128) -> Option<(u128, u128)> {
        let k = self.runs_starting_at_or_before(v);
        if k > 0 {
            let (s, l) = self.runs[k - 1];
            if v < s + l {
                return Some((self.cum[k - 1] + (v - s), v));
            }
        }
        if k < self.runs.len() {
            Some((self.cum[k], self.runs[k].0))
        } else {
            None
        }
    }

    /// All set positions (only for small models).
    pub fn positions(&self) -> Vec<u128> {
        let mut v = Vec::new();
        for &(s, l) in &self.runs {
            for p in s..s + l {
                v.push(p);
            }
        }
        v
    }

    /// All unset positions (only for small models).
    pub fn zero_positions(&self) -> Vec<u128> {
        let mut v = Vec::new();
        let mut prev = 0u128;
        for &(s, l) in &self.runs {
            for p in prev..s {
                v.push(p);
            }
            prev = s + l;
        }
        for p in prev..self.len {
            v.push(p);
        }
        v
    }

    pub fn to_bools(&self) -> Vec<bool> {
        let mut b = vec![false; self.len as usize];
        for &(s, l) in &self.runs {
            for p in s..s + l {
                b[p as usize] = true;
            }
        }
        b
    }

    /// Positions where an implementation is most likely to change regime: run edges +-1, the given
    /// extra boundaries +-1, and the ends; clipped to `[0, len]`, sorted, deduplicated.
    pub fn edge_positions(&self, extra: &[u128], cap: usize) -> Vec<u128> {
        let mut v: Vec<u128> = vec![0, 1, self.len.saturating_sub(1), self.len];
        let mut push = |x: u128| {
            if x > 0 {
                v.push(x - 1);
            }
            v.push(x);
            v.push(x + 1);
        };
        let step = (self.runs.len() / cap.max(1)).max(1);
        for (i, &(s, l)) in self.runs.iter().enumerate() {
            if i % step == 0 || i + 2 >= self.runs.len() {
                push(s);
                push(s + l);
            }
        }
        for &e in extra {
            push(e);
        }
        v.retain(|&x| x <= self.len);
        v.sort_unstable();
        v.dedup();
        v
    }
}

/// Brute-force model over `Vec<bool>`, used only to validate [`Bits`] itself at start-up.
pub fn self_check() -> Result<u64, String> {
    let mut checked = 0u64;
    for len in 0..=9usize {
        for w in 0..(1u64 << len) {
            let b: Vec<bool> = (0..len).map(|i| (w >> i) & 1 == 1).collect();
            let m = Bits::from_bools(&b);
            let pos: Vec<usize> = (0..len).filter(|&i| b[i]).collect();
            let zer: Vec<usize> = (0..len).filter(|&i| !b[i]).collect();
            if m.ones() as usize != pos.len() || m.to_bools() != b {
                return Err(format!("model self-check: ones/to_bools for {:?}", b));
            }
            if m.positions() != pos.iter().map(|&p| p as u128).collect::<Vec<_>>() || m.zero_positions() != zer.iter().map(|&p| p as u128).collect::<Vec<_>>() {
                return Err(format!("model self-check: positions for {:?}", b));
            }
            for i in 0..=len + 2 {
                let r = pos.iter().filter(|&&p| p < i).count();
                if m.rank(i as u128) as usize != r {
                    return Err(format!("model self-check: rank({}) for {:?}", i, b));
                }
                if i < len && m.get(i as u128) != b[i] {
                    return Err(format!("model self-check: get({}) for {:?}", i, b));
                }
                let want_sel = pos.get(i).map(|&p| p as u128);
                if m.select(i as u128) != want_sel {
                    return Err(format!("model self-check: select({}) for {:?}", i, b));
                }
                let want_sz = zer.get(i).map(|&p| p as u128);
                if m.select_zero(i as u128) != want_sz {
                    return Err(format!("model self-check: select_zero({}) for {:?}", i, b));
                }
                let want_pred = pos.iter().enumerate().filter(|(_, &p)| p <= i).last().map(|(r, &p)| (r as u128, p as u128));
                if m.pred(i as u128) != want_pred {
                    return Err(format!("model self-check: pred({}) for {:?}", i, b));
                }
                let want_succ = pos.iter().enumerate().find(|(_, &p)| p >= i).map(|(r, &p)| (r as u128, p as u128));
                if m.succ(i as u128) != want_succ {
                    return Err(format!("model self-check: succ({}) for {:?}", i, b));
                }
                checked += 6;
            }
        }
    }
    Ok(checked)
}

/// A multiset of values (sorted, duplicates allowed) over a universe; linear scans only.
#[derive(Clone, Debug, PartialEq, Eq, Hash)]
pub struct Multiset {
    pub universe: usize,
    pub values: Vec<usize>,
}

impl Multiset {
    pub fn count(&self) -> usize {
        self.values.len()
    }
    pub fn select(&self, i: usize) -> Option<usize> {
        self.values.get(i).copied()
    }
    /// Number of values below `i`.
    pub fn rank(&self, i: usize) -> usize {
        self.values.iter().filter(|&&v| v < i).count()
    }
    pub fn get(&self, i: usize) -> bool {
        self.values.contains(&i)
    }
    /// First occurrence of the smallest value `>= v`: (rank, value).
    pub fn succ(&self, v: usize) -> Option<(usize, usize)> {
        self.values.iter().enumerate().find(|(_, &x)| x >= v).map(|(r, &x)| (r, x))
    }
    /// Last occurrence of the largest value `<= v`: (rank, value).
    pub fn pred(&self, v: usize) -> Option<(usize, usize)> {
        self.values.iter().enumerate().filter(|(_, &x)| x <= v).last().map(|(r, &x)| (r, x))
    }
    pub fn distinct(&self) -> Vec<usize> {
        let mut d = self.values.clone();
        d.dedup();
        d
    }
}

/// The argument set A(len) = {0, 1, len-1, len, len+1, 2*len, 2^63, MAX-1, MAX}, deduplicated.
pub fn boundary_args(len: usize) -> Vec<usize> {
    let mut v = vec![0usize, 1, len, 1usize << 63, usize::MAX - 1, usize::MAX];
    if len > 0 {
        v.push(len - 1);
    }
    if let Some(x) = len.checked_add(1) {
        v.push(x);
    }
    if let Some(x) = len.checked_mul(2) {
        v.push(x);
    }
    v.sort_unstable();
    v.dedup();
    v
}
