//! Environment-answer alphabets for readers and writers: short reads, short writes, write budgets.

use std::io::{self, Read, Write};

/// A reader over a byte slice that returns at most `chunk` bytes per `read` call.
pub struct ShortReader<'a> {
    pub data: &'a [u8],
    pub pos: usize,
    pub chunk: usize,
}

impl<'a> ShortReader<'a> {
    pub fn new(data: &'a [u8], chunk: usize) -> Self {
        ShortReader { data, pos: 0, chunk: chunk.max(1) }
    }
}

impl<'a> Read for ShortReader<'a> {
    fn read(&mut self, buf: &mut [u8]) -> io::Result<usize> {
        let n = buf.len().min(self.chunk).min(self.data.len() - self.pos);
        buf[..n].copy_from_slice(&self.data[self.pos..self.pos + n]);
        self.pos += n;
        Ok(n)
    }
}

/// A sink that accepts at most `chunk` bytes per call and never fails.
pub struct ShortWriter {
    pub data: Vec<u8>,
    pub chunk: usize,
    pub calls: u64,
}

impl ShortWriter {
    pub fn new(chunk: usize) -> Self {
        ShortWriter { data: Vec::new(), chunk: chunk.max(1), calls: 0 }
    }
}

impl Write for ShortWriter {
    fn write(&mut self, buf: &[u8]) -> io::Result<usize> {
        self.calls += 1;
        let n = buf.len().min(self.chunk);
        self.data.extend_from_slice(&buf[..n]);
        Ok(n)
    }
    fn flush(&mut self) -> io::Result<()> {
        Ok(())
    }
}

/// A sink that accepts `budget` bytes in total (at most `chunk` per call) and then fails with
/// an error carrying a recognisable message.
pub struct BudgetWriter {
    pub data: Vec<u8>,
    pub budget: usize,
    pub chunk: usize,
    pub failed: bool,
}

pub const BUDGET_ERROR: &str = "verif: write budget exhausted";

impl BudgetWriter {
    pub fn new(budget: usize, chunk: usize) -> Self {
        BudgetWriter { data: Vec::new(), budget, chunk: chunk.max(1), failed: false }
    }
}

impl Write for BudgetWriter {
    fn write(&mut self, buf: &[u8]) -> io::Result<usize> {
        if buf.is_empty() {
            return Ok(0);
        }
        let left = self.budget - self.data.len();
        if left == 0 {
            self.failed = true;
            return Err(io::Error::new(io::ErrorKind::Other, BUDGET_ERROR));
        }
        let n = buf.len().min(self.chunk).min(left);
        self.data.extend_from_slice(&buf[..n]);
        Ok(n)
    }
    fn flush(&mut self) -> io::Result<()> {
        Ok(())
    }
}

/// A reader over a byte slice that counts how many bytes were consumed.
pub struct CountingReader<'a> {
    pub data: &'a [u8],
    pub pos: usize,
}

impl<'a> CountingReader<'a> {
    pub fn new(data: &'a [u8]) -> Self {
        CountingReader { data, pos: 0 }
    }
}

impl<'a> Read for CountingReader<'a> {
    fn read(&mut self, buf: &mut [u8]) -> io::Result<usize> {
        let n = buf.len().min(self.data.len() - self.pos);
        buf[..n].copy_from_slice(&self.data[self.pos..self.pos + n]);
        self.pos += n;
        Ok(n)
    }
}
