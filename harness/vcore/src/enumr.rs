//! Enumeration helpers: words over an alphabet, compositions, boundary letters.

use serde::{Deserialize, Serialize};

/// Calls `f` with every word of length `0..=depth` over `0..alphabet` in length-then-lexicographic
/// order (simplest first).
pub fn words(alphabet: usize, depth: usize, mut f: impl FnMut(&[usize])) {
    for len in 0..=depth {
        words_exact(alphabet, len, &mut f);
    }
}

/// Every word of exactly `len` letters.
pub fn words_exact(alphabet: usize, len: usize, f: &mut impl FnMut(&[usize])) {
    if len == 0 {
        f(&[]);
        return;
    }
    if alphabet == 0 {
        return;
    }
    let mut w = vec![0usize; len];
    loop {
        f(&w);
        let mut i = len;
        loop {
            if i == 0 {
                return;
            }
            i -= 1;
            w[i] += 1;
            if w[i] < alphabet {
                break;
            }
            w[i] = 0;
        }
    }
}

/// Every composition of `n` into positive parts (2^(n-1) of them for n >= 1; one empty for 0).
pub fn compositions(n: usize, f: &mut impl FnMut(&[usize])) {
    fn rec(rest: usize, cur: &mut Vec<usize>, f: &mut dyn FnMut(&[usize])) {
        if rest == 0 {
            f(cur);
            return;
        }
        for first in 1..=rest {
            cur.push(first);
            rec(rest - first, cur, f);
            cur.pop();
        }
    }
    rec(n, &mut Vec::new(), f);
}

/// A letter of the regime alphabet for long bit sequences.
#[derive(Clone, Copy, Debug, PartialEq, Eq, Hash, Serialize, Deserialize)]
pub enum Letter {
    /// `n` set bits.
    Ones(u64),
    /// `n` unset bits.
    Zeros(u64),
    /// `count` times: one set bit followed by `period - 1` unset bits.
    Every(u64, u64),
    /// `count` times: `period - 1` set bits followed by one unset bit (the complement pattern).
    EveryZero(u64, u64),
}

impl Letter {
    pub fn bits(&self) -> u128 {
        match *self {
            Letter::Ones(n) | Letter::Zeros(n) => n as u128,
            Letter::Every(p, c) | Letter::EveryZero(p, c) => p as u128 * c as u128,
        }
    }

    /// Appends this letter's runs of set bits at offset `at`.
    pub fn push_runs(&self, at: u128, runs: &mut Vec<(u128, u128)>) {
        match *self {
            Letter::Ones(n) => runs.push((at, n as u128)),
            Letter::Zeros(_) => {}
            Letter::Every(p, c) => {
                for k in 0..c as u128 {
                    runs.push((at + k * p as u128, 1));
                }
            }
            Letter::EveryZero(p, c) => {
                if p > 1 {
                    for k in 0..c as u128 {
                        runs.push((at + k * p as u128, p as u128 - 1));
                    }
                }
            }
        }
    }
}

/// Runs and total length of a word of letters.
pub fn word_runs(word: &[Letter]) -> (u128, Vec<(u128, u128)>) {
    let mut runs = Vec::new();
    let mut at = 0u128;
    for l in word {
        l.push_runs(at, &mut runs);
        at += l.bits();
    }
    (at, runs)
}
