//! Wavelet-matrix checks shared by C04 (answers), C09 (totality) and the C08 monitor.

use crate::*;
use serde::{Deserialize, Serialize};
use simple_sds::ops::{Access, Vector, VectorIndex};
use simple_sds::wavelet_matrix::wm_core::WMCore;
use simple_sds::wavelet_matrix::WaveletMatrix;

#[derive(Serialize, Deserialize, Clone, Debug, Hash)]
pub struct Case {
    pub values: Vec<u64>,
}

pub fn bit_len(x: u64) -> usize {
    if x == 0 { 1 } else { 64 - x.leading_zeros() as usize }
}

pub fn rev_low(v: u64, w: usize) -> u64 {
    (0..w).fold(0u64, |acc, k| acc | (((v >> k) & 1) << (w - 1 - k)))
}

pub fn occurrences(vals: &[u64], v: u64) -> Vec<usize> {
    vals.iter().enumerate().filter(|(_, &x)| x == v).map(|(i, _)| i).collect()
}

/// Value arguments: the whole alphabet if it is small, otherwise the present values and their
/// neighbours; plus values outside the alphabet.
pub fn value_args(vals: &[u64], width: usize) -> Vec<u64> {
    let max = vals.iter().copied().max().unwrap_or(0);
    let mut a: Vec<u64> = Vec::new();
    if max <= 40 {
        a.extend(0..=max);
    } else {
        for &v in vals {
            a.push(v);
            a.push(v.wrapping_sub(1));
            a.push(v + 1);
        }
        a.push(0);
        a.push(max / 2);
    }
    a.push(max + 1);
    if width < 64 {
        a.push(1u64 << width);
        a.push((1u64 << width) + 1);
    }
    a.push(1u64 << 63);
    a.push(u64::MAX - 1);
    a.push(u64::MAX);
    a.sort_unstable();
    a.dedup();
    a
}

pub fn check_case(ctx: &mut Ctx, c: &Case) {
    let vals = &c.values;
    let case = || serde_json::to_value(c).unwrap();
    ctx.announce(case);
    let n = vals.len();
    let max = vals.iter().copied().max().unwrap_or(0);
    let width = bit_len(max);
    ctx.sample_tagged(if max < 16 { "full-alphabet" } else { "sparse-alphabet" }, case);
    ctx.note("widths_seen", format!("{:02}", width));

    let wm = match guard(|| WaveletMatrix::from(vals.clone())) {
        Ok(wm) => wm,
        Err(msg) => {
            ctx.panic_violation("WaveletMatrix.construct", &msg, None, || json!({"wm": case(), "call": "From<Vec<u64>>"}));
            return;
        }
    };
    let distinct_values = { let mut d = vals.clone(); d.sort_unstable(); d.dedup(); d.len() };
    if distinct_values >= 2 {
        ctx.nontrivial(c);
    }
    if (distinct_values as u64) < max + 1 {
        ctx.count("vectors_with_missing_alphabet_values", 1);
    }

    ctx.expect(|| "WaveletMatrix.len".into(), guard(|| wm.len()), &n, || json!({"wm": case(), "call": "len()"}));
    ctx.expect(|| "WaveletMatrix.width".into(), guard(|| wm.width()), &width, || json!({"wm": case(), "call": "width()"}));
    ctx.expect(|| "WaveletMatrix.is_empty".into(), guard(|| wm.is_empty()), &(n == 0), || json!({"wm": case(), "call": "is_empty()"}));
    for i in 0..n {
        ctx.expect(|| "WaveletMatrix.get".into(), guard(|| wm.get(i)), &vals[i], || json!({"wm": case(), "call": format!("get({})", i)}));
    }
    ctx.expect(|| "WaveletMatrix.iter".into(), guard(|| { let it = wm.iter(); let l = it.len(); (it.collect::<Vec<u64>>(), l) }), &(vals.clone(), n), || json!({"wm": case(), "call": "iter()"}));
    ctx.expect(|| "WaveletMatrix.into_iter".into(), guard(|| { let it = wm.clone().into_iter(); let l = it.len(); (it.collect::<Vec<u64>>(), l) }), &(vals.clone(), n), || json!({"wm": case(), "call": "into_iter()"}));
    // The vector is also reproduced when the listing is entered by a skip (also one past the end: the remaining
    // length is then 0 and nothing follows).
    for k in [0, n.saturating_sub(1), n, n + 1] {
        let want = (vals.get(k).copied(), n.saturating_sub(k + 1), vals.iter().skip(k + 1).copied().collect::<Vec<u64>>());
        ctx.expect(|| "WaveletMatrix.iter.nth".into(), guard(|| { let mut it = wm.iter(); let x = it.nth(k); let l = it.len(); (x, l, it.take(n + 1).collect::<Vec<u64>>()) }), &want, || json!({"wm": case(), "call": format!("iter(): nth({}), len(), then to the end", k)}));
        ctx.expect(|| "WaveletMatrix.into_iter.nth".into(), guard(|| { let mut it = wm.clone().into_iter(); let x = it.nth(k); let l = it.len(); (x, l, it.take(n + 1).collect::<Vec<u64>>()) }), &want, || json!({"wm": case(), "call": format!("into_iter(): nth({}), len(), then to the end", k)}));
    }

    let mut idx: Vec<usize> = (0..=n + 1).collect();
    idx.extend(boundary_args(n));
    idx.sort_unstable();
    idx.dedup();

    for &i in &idx {
        let cls = arg_class(i, n);
        let want = if i < n { Some((occurrences(&vals[..i], vals[i]).len(), vals[i])) } else { None };
        ctx.expect(|| format!("WaveletMatrix.inverse_select[{}]", cls), guard(|| wm.inverse_select(i)), &want, || json!({"wm": case(), "call": format!("inverse_select({})", i)}));
    }

    for v in value_args(vals, width) {
        let occ = occurrences(vals, v);
        let vcls = if occ.is_empty() { if v <= max { "absent" } else { "outside" } } else { "present" };
        ctx.expect(|| format!("WaveletMatrix.contains[{}]", vcls), guard(|| wm.contains(v)), &!occ.is_empty(), || json!({"wm": case(), "call": format!("contains({})", v)}));
        let all: Vec<(usize, usize)> = occ.iter().copied().enumerate().collect();
        ctx.expect(|| format!("WaveletMatrix.value_iter[{}]", vcls), guard(|| wm.value_iter(v).collect::<Vec<_>>()), &all, || json!({"wm": case(), "call": format!("value_iter({})", v)}));
        // The same listing reached by a skip, also one that runs past the last occurrence (the iterator must
        // then stay exhausted).
        for k in [0, all.len().saturating_sub(1), all.len(), all.len() + 1] {
            let want = (all.get(k).copied(), all.iter().skip(k + 1).copied().collect::<Vec<_>>(), true);
            let got = guard(|| {
                let mut it = wm.value_iter(v);
                let x = it.nth(k);
                let rest: Vec<_> = it.by_ref().take(all.len() + 1).collect();
                (x, rest, it.next().is_none())
            });
            ctx.expect(|| format!("WaveletMatrix.value_iter.nth[{}]", vcls), got, &want, || json!({"wm": case(), "call": format!("value_iter({}): nth({}), then next() to the end", v, k)}));
        }
        ctx.expect(|| format!("WaveletMatrix.value_of[{}]", vcls), guard(|| WaveletMatrix::value_of(&wm.value_iter(v))), &v, || json!({"wm": case(), "call": format!("value_of(value_iter({}))", v)}));
        for &i in &idx {
            let cls = arg_class(i, n);
            let want = occ.iter().filter(|&&p| p < i).count();
            ctx.expect(|| format!("WaveletMatrix.rank[{},{}]", cls, vcls), guard(|| wm.rank(i, v)), &want, || json!({"wm": case(), "call": format!("rank({}, {})", i, v)}));
            // predecessor: the iterator starts at the last occurrence <= i and continues forward.
            let p = occ.iter().rposition(|&p| p <= i);
            let want_p: Vec<(usize, usize)> = match p { Some(r) => all[r..].to_vec(), None => vec![] };
            ctx.expect(|| format!("WaveletMatrix.predecessor[{},{}]", cls, vcls), guard(|| wm.predecessor(i, v).collect::<Vec<_>>()), &want_p, || json!({"wm": case(), "call": format!("predecessor({}, {})", i, v)}));
            let s = occ.iter().position(|&p| p >= i);
            let want_s: Vec<(usize, usize)> = match s { Some(r) => all[r..].to_vec(), None => vec![] };
            ctx.expect(|| format!("WaveletMatrix.successor[{},{}]", cls, vcls), guard(|| wm.successor(i, v).collect::<Vec<_>>()), &want_s, || json!({"wm": case(), "call": format!("successor({}, {})", i, v)}));
        }
        let mut ranks: Vec<usize> = (0..=occ.len() + 1).collect();
        ranks.extend(boundary_args(occ.len()));
        ranks.extend(boundary_args(n));
        ranks.sort_unstable();
        ranks.dedup();
        for &r in &ranks {
            let cls = arg_class(r, occ.len());
            ctx.expect(|| format!("WaveletMatrix.select[{},{}]", cls, vcls), guard(|| wm.select(r, v)), &occ.get(r).copied(), || json!({"wm": case(), "call": format!("select({}, {})", r, v)}));
            let want: Vec<(usize, usize)> = if r < occ.len() { all[r..].to_vec() } else { vec![] };
            ctx.expect(|| format!("WaveletMatrix.select_iter[{},{}]", cls, vcls), guard(|| wm.select_iter(r, v).collect::<Vec<_>>()), &want, || json!({"wm": case(), "call": format!("select_iter({}, {})", r, v)}));
        }
    }

    // The core: map_down(i) = position of V[i] in the stable sort by reversed width-bit representation.
    let core = match guard(|| WMCore::from(vals.clone())) {
        Ok(core) => core,
        Err(msg) => {
            ctx.panic_violation("WMCore.construct", &msg, None, || json!({"wm": case(), "call": "WMCore::from(Vec<u64>)"}));
            return;
        }
    };
    let mut order: Vec<usize> = (0..n).collect();
    order.sort_by_key(|&i| rev_low(vals[i], width)); // stable
    let mut pos_of = vec![0usize; n];
    for (p, &i) in order.iter().enumerate() {
        pos_of[i] = p;
    }
    ctx.expect(|| "WMCore.len".into(), guard(|| core.len()), &n, || json!({"wm": case(), "call": "core.len()"}));
    ctx.expect(|| "WMCore.width".into(), guard(|| core.width()), &width, || json!({"wm": case(), "call": "core.width()"}));
    for i in 0..n {
        ctx.expect(|| "WMCore.map_down".into(), guard(|| core.map_down(i)), &Some((pos_of[i], vals[i])), || json!({"wm": case(), "call": format!("core.map_down({})", i)}));
        ctx.expect(|| "WMCore.map_down_with".into(), guard(|| core.map_down_with(i, vals[i])), &pos_of[i], || json!({"wm": case(), "call": format!("core.map_down_with({}, {})", i, vals[i])}));
        ctx.expect(|| "WMCore.map_up_with".into(), guard(|| core.map_up_with(pos_of[i], vals[i])), &Some(i), || json!({"wm": case(), "call": format!("core.map_up_with({}, {})", pos_of[i], vals[i])}));
    }
    ctx.expect(|| "WMCore.map_down[eq]".into(), guard(|| core.map_down(n)), &None, || json!({"wm": case(), "call": format!("core.map_down({})", n)}));
    // map_down_with at the end of the vector for a present value = position after its last occurrence.
    for i in 0..n {
        let v = vals[i];
        let first = (0..n).filter(|&j| rev_low(vals[j], width) < rev_low(v, width)).count();
        let cnt = occurrences(vals, v).len();
        ctx.expect(|| "WMCore.map_down_with[eq]".into(), guard(|| core.map_down_with(n, v)), &(first + cnt), || json!({"wm": case(), "call": format!("core.map_down_with({}, {})", n, v)}));
        for j in 0..=n {
            let want = (first + occurrences(&vals[..j], v).len(), first + occurrences(&vals[..i.min(j)], v).len());
            ctx.expect(|| "WMCore.map_down_with_two_positions".into(), guard(|| core.map_down_with_two_positions(j, i.min(j), v)), &want, || json!({"wm": case(), "call": format!("core.map_down_with_two_positions({}, {}, {})", j, i.min(j), v)}));
        }
    }

    // All item types that can hold the values give the same matrix (and the same core).
    let bytes = to_bytes(&wm);
    let mut others: Vec<(&str, Result<(WaveletMatrix, WMCore), String>)> = Vec::new();
    if max <= u8::MAX as u64 {
        others.push(("u8", guard(|| { let v: Vec<u8> = vals.iter().map(|&x| x as u8).collect(); (WaveletMatrix::from(v.clone()), WMCore::from(v)) })));
    }
    if max <= u16::MAX as u64 {
        others.push(("u16", guard(|| { let v: Vec<u16> = vals.iter().map(|&x| x as u16).collect(); (WaveletMatrix::from(v.clone()), WMCore::from(v)) })));
    }
    if max <= u32::MAX as u64 {
        others.push(("u32", guard(|| { let v: Vec<u32> = vals.iter().map(|&x| x as u32).collect(); (WaveletMatrix::from(v.clone()), WMCore::from(v)) })));
    }
    others.push(("usize", guard(|| { let v: Vec<usize> = vals.iter().map(|&x| x as usize).collect(); (WaveletMatrix::from(v.clone()), WMCore::from(v)) })));
    // The loaded copy (serialize; load) is one more route to the same matrix.
    others.push(("u64, then serialize and load", guard(|| {
        let w2: WaveletMatrix = from_bytes(&to_bytes(&wm)).expect("load refused the library's own serialization");
        let c2: WMCore = from_bytes(&to_bytes(&core)).expect("load refused the library's own serialization");
        (w2, c2)
    })));
    // Same vector through another item type: same length, width, items and index answers. (The property
    // is about answers; identical representation across item types is not stated.)
    let _ = &bytes;
    for (t, r) in others {
        match r {
            Ok((w2, c2)) => {
                let same = guard(|| {
                    let mut ok = w2.len() == n && w2.width() == width && w2.iter().eq(vals.iter().copied()) && c2.len() == n && c2.width() == width;
                    for v in value_args(vals, width) {
                        ok &= w2.contains(v) == wm.contains(v) && w2.rank(n, v) == wm.rank(n, v) && w2.select(0, v) == wm.select(0, v) && w2.rank(n / 2, v) == wm.rank(n / 2, v);
                    }
                    for i in 0..n {
                        ok &= c2.map_down(i) == core.map_down(i) && w2.inverse_select(i) == wm.inverse_select(i);
                    }
                    ok
                });
                ctx.expect(|| format!("WaveletMatrix.from(Vec<{}>)[same answers as from Vec<u64>]", t), same, &true, || json!({"wm": case(), "call": format!("From<Vec<{}>>", t)}));
            }
            Err(msg) => ctx.panic_violation(&format!("WaveletMatrix.from(Vec<{}>)", t), &msg, None, || json!({"wm": case(), "call": format!("From<Vec<{}>>", t)})),
        }
    }
}
