//! C15 — sparse vectors built as multisets answer present-value queries naturally.
//! E-input: every non-decreasing value list over small universes (incl. overfull ones), duplicates at
//! bucket boundaries for real low widths, and try_from_iter over every (sorted or unsorted) sequence.

use drivers::catalogue::sparse_multiset;
use drivers::*;
use serde::{Deserialize, Serialize};
use simple_sds::ops::{BitVec, PredSucc, Rank, Select};
use simple_sds::sparse_vector::SparseVector;
use vcore::enumr;
use vcore::spec;

#[derive(Serialize, Deserialize, Clone, Debug, Hash)]
enum Case {
    Multi { universe: usize, values: Vec<usize> },
    FromIter { seq: Vec<usize> },
    /// Many duplicates: (value, multiplicity) pairs with increasing values.
    Heavy { universe: usize, runs: Vec<(usize, usize)>, via_iter: bool },
}

fn check_multi(ctx: &mut Ctx, universe: usize, values: &[usize], via_iter: Option<&SparseVector>) {
    // A vector built by try_from_iter is reported (and replayed) as such.
    let c = if via_iter.is_some() { Case::FromIter { seq: values.to_vec() } } else { Case::Multi { universe, values: values.to_vec() } };
    let case = || serde_json::to_value(&c).unwrap();
    ctx.announce(case);
    let ms = Multiset { universe, values: values.to_vec() };
    let built;
    let sv: &SparseVector = match via_iter {
        Some(sv) => sv,
        None => match guard(|| sparse_multiset(universe, values)) {
            Ok(sv) => {
                built = sv;
                &built
            }
            Err(msg) => {
                ctx.panic_violation("SparseVector(multiset).construct", &msg, None, case);
                return;
            }
        },
    };
    let dup = values.windows(2).any(|w| w[0] == w[1]);
    if dup {
        ctx.nontrivial(&c);
        ctx.count("cases_with_duplicates", 1);
    }
    if values.len() > universe {
        ctx.count("overfull_cases", 1);
    }
    let name = "SparseVector(multiset)";
    ctx.expect(|| format!("{}.len", name), guard(|| sv.len()), &universe, || json!({"ms": case(), "call": "len()"}));
    ctx.expect(|| format!("{}.count_ones", name), guard(|| sv.count_ones()), &values.len(), || json!({"ms": case(), "call": "count_ones()"}));
    ctx.expect(|| format!("{}.is_multiset", name), guard(|| sv.is_multiset()), &dup, || json!({"ms": case(), "call": "is_multiset()"}));
    let mut ranks: Vec<usize> = (0..=values.len() + 1).collect();
    ranks.extend(boundary_args(values.len()));
    ranks.sort_unstable();
    ranks.dedup();
    let all: Vec<(usize, usize)> = values.iter().copied().enumerate().collect();
    for &r in &ranks {
        let cls = arg_class(r, values.len());
        ctx.expect(|| format!("{}.select[{}]", name, cls), guard(|| sv.select(r)), &ms.select(r), || json!({"ms": case(), "call": format!("select({})", r)}));
        let want: Vec<(usize, usize)> = all.get(r..).unwrap_or(&[]).to_vec();
        ctx.expect(|| format!("{}.select_iter[{}]", name, cls), guard(|| sv.select_iter(r).collect::<Vec<_>>()), &want, || json!({"ms": case(), "call": format!("select_iter({})", r)}));
    }
    let mut idx: Vec<usize> = if universe <= 300 { (0..=universe + 1).collect() } else { values.iter().flat_map(|&v| [v.saturating_sub(1), v, v + 1]).collect() };
    idx.extend(boundary_args(universe));
    idx.sort_unstable();
    idx.dedup();
    for &i in &idx {
        let cls = arg_class(i, universe);
        if i < universe {
            ctx.expect(|| format!("{}.get[{}]", name, cls), guard(|| sv.get(i)), &ms.get(i), || json!({"ms": case(), "call": format!("get({})", i)}));
        }
        ctx.expect(|| format!("{}.rank[{}]", name, cls), guard(|| sv.rank(i)), &ms.rank(i), || json!({"ms": case(), "call": format!("rank({})", i)}));
        // successor: the first occurrence of the smallest value >= i, then all later values.
        let want: Vec<(usize, usize)> = match ms.succ(i) { Some((r, _)) => all[r..].to_vec(), None => vec![] };
        ctx.expect(|| format!("{}.successor[{}]", name, cls), guard(|| sv.successor(i).collect::<Vec<_>>()), &want, || json!({"ms": case(), "call": format!("successor({})", i)}));
        // predecessor: the last occurrence of the largest value <= i, then all later values.
        let want: Vec<(usize, usize)> = match ms.pred(i) { Some((r, _)) => all[r..].to_vec(), None => vec![] };
        ctx.expect(|| format!("{}.predecessor[{}]", name, cls), guard(|| sv.predecessor(i).collect::<Vec<_>>()), &want, || json!({"ms": case(), "call": format!("predecessor({})", i)}));
    }
    // Set-bit iterator: forward, backward and every forward/backward split.
    ctx.expect(|| format!("{}.one_iter", name), guard(|| { let it = sv.one_iter(); let l = it.len(); (it.collect::<Vec<_>>(), l) }), &(all.clone(), all.len()), || json!({"ms": case(), "call": "one_iter()"}));
    ctx.expect(|| format!("{}.one_iter.rev", name), guard(|| sv.one_iter().rev().collect::<Vec<_>>()), &all.iter().rev().copied().collect::<Vec<_>>(), || json!({"ms": case(), "call": "one_iter().rev()"}));
    for split in 0..=all.len() {
        let got = guard(|| {
            let mut it = sv.one_iter();
            let mut front = Vec::new();
            for _ in 0..split {
                front.extend(it.next());
            }
            let mut back = Vec::new();
            while let Some(x) = it.next_back() {
                back.push(x);
            }
            back.reverse();
            front.extend(back);
            (front, it.next().is_none())
        });
        ctx.expect(|| format!("{}.one_iter[split]", name), got, &(all.clone(), true), || json!({"ms": case(), "call": format!("one_iter(): {} x next(), then next_back() to the end", split)}));
    }
    // ... and the other way round: `split` items taken from the back first, then forward to the meeting point.
    for split in 0..=all.len() {
        let got = guard(|| {
            let mut it = sv.one_iter();
            let mut back = Vec::new();
            for _ in 0..split {
                back.extend(it.next_back());
            }
            back.reverse();
            let mut front = Vec::new();
            while let Some(x) = it.next() {
                front.push(x);
                if front.len() > all.len() {
                    break; // ran past the meeting point
                }
            }
            front.extend(back);
            (front, it.next_back().is_none())
        });
        ctx.expect(|| format!("{}.one_iter[split from the back]", name), got, &(all.clone(), true), || json!({"ms": case(), "call": format!("one_iter(): {} x next_back(), then next() to the end", split)}));
    }
    // The listing also holds when the front is advanced by skips: a few items taken from the back, one
    // `nth(k)` from the front (also past the meeting point), then forward to the end.
    for split in 0..=all.len().min(3) {
        for k in 0..=all.len().min(3) {
            let reference = &all[..all.len() - split];
            let want = (reference.get(k).copied(), reference.iter().skip(k + 1).copied().collect::<Vec<_>>(), true);
            let got = guard(|| {
                let mut it = sv.one_iter();
                for _ in 0..split {
                    it.next_back();
                }
                let x = it.nth(k);
                let rest: Vec<_> = it.by_ref().take(all.len() + 1).collect();
                (x, rest, it.next().is_none())
            });
            ctx.expect(|| format!("{}.one_iter[back, then nth]", name), got, &want, || json!({"ms": case(), "call": format!("one_iter(): {} x next_back(), nth({}), then next() to the end", split, k)}));
        }
    }
    // Bit iterator lists the distinct positions, in both directions and at every split.
    if universe <= 5000 {
        let bools: Vec<bool> = (0..universe).map(|i| ms.get(i)).collect();
        ctx.expect(|| format!("{}.iter", name), guard(|| { let it = sv.iter(); let l = it.len(); (it.collect::<Vec<_>>(), l) }), &(bools.clone(), universe), || json!({"ms": case(), "call": "iter()"}));
        ctx.expect(|| format!("{}.iter.rev", name), guard(|| sv.iter().rev().collect::<Vec<_>>()), &bools.iter().rev().copied().collect::<Vec<_>>(), || json!({"ms": case(), "call": "iter().rev()"}));
        let splits: Vec<usize> = if universe <= 64 { (0..=universe).collect() } else { let mut s: Vec<usize> = values.iter().flat_map(|&v| [v, v + 1]).filter(|&x| x <= universe).collect(); s.push(0); s.push(universe); s.sort_unstable(); s.dedup(); s };
        for split in splits {
            let got = guard(|| {
                let mut it = sv.iter();
                let mut front = Vec::new();
                for _ in 0..split {
                    front.extend(it.next());
                }
                let mut back = Vec::new();
                while let Some(x) = it.next_back() {
                    back.push(x);
                }
                back.reverse();
                front.extend(back);
                front
            });
            ctx.expect(|| format!("{}.iter[split]", name), got, &bools, || json!({"ms": case(), "call": format!("iter(): {} x next(), then next_back() to the end", split)}));
        }
    }
    // Low width actually used (regime evidence).
    let bytes = to_bytes(sv);
    let mut problems = Vec::new();
    if let Ok(f) = spec::read_sparse(&mut spec::Reader::new(&bytes), &mut problems) {
        ctx.note("low_widths_seen", format!("{:02}", f.width));
    }
}

/// Multisets with tens of thousands of duplicates (the upper part of the encoding then has long runs of
/// set bits, i.e. long select superblocks next to short ones). Queries at the structural edges only.
fn check_heavy(ctx: &mut Ctx, universe: usize, runs: &[(usize, usize)], via_iter: bool) {
    let c = Case::Heavy { universe, runs: runs.to_vec(), via_iter };
    let case = || serde_json::to_value(&c).unwrap();
    ctx.announce(case);
    ctx.nontrivial(&c);
    ctx.count("cases_with_duplicates", 1);
    let values: Vec<usize> = runs.iter().flat_map(|&(v, m)| std::iter::repeat(v).take(m)).collect();
    let ms = Multiset { universe, values: values.clone() };
    let sv = match guard(|| if via_iter { SparseVector::try_from_iter(values.clone().into_iter()).map_err(|e| e.to_string()) } else { Ok(sparse_multiset(universe, &values)) }) {
        Ok(Ok(sv)) => sv,
        Ok(Err(e)) => {
            ctx.require(|| "SparseVector.try_from_iter[sorted refused]".to_string(), false, || json!({"ms": case(), "call": "try_from_iter"}), || json!({"observed": format!("Err({})", e), "expected": "Ok"}));
            return;
        }
        Err(msg) => {
            ctx.panic_violation("SparseVector(multiset).construct", &msg, None, || json!({"ms": case(), "call": "construct"}));
            return;
        }
    };
    let name = "SparseVector(multiset)";
    let n = values.len();
    ctx.expect(|| format!("{}.len", name), guard(|| sv.len()), &universe, || json!({"ms": case(), "call": "len()"}));
    ctx.expect(|| format!("{}.count_ones", name), guard(|| sv.count_ones()), &n, || json!({"ms": case(), "call": "count_ones()"}));
    let mut ranks: Vec<usize> = boundary_args(n);
    let mut at = 0usize;
    for &(_, m) in runs {
        for r in [at.saturating_sub(1), at, at + 1, at + m / 2, at + 4095, at + 4096, at + 4097, (at + m).saturating_sub(2)] {
            ranks.push(r);
        }
        at += m;
    }
    ranks.sort_unstable();
    ranks.dedup();
    let tail = |r: usize| -> Vec<(usize, usize)> { values.iter().copied().enumerate().skip(r).take(3).collect() };
    for &r in &ranks {
        let cls = arg_class(r, n);
        ctx.expect(|| format!("{}.select[{}]", name, cls), guard(|| sv.select(r)), &ms.select(r), || json!({"ms": case(), "call": format!("select({})", r)}));
        ctx.expect(|| format!("{}.select_iter[{}]", name, cls), guard(|| sv.select_iter(r).take(3).collect::<Vec<_>>()), &tail(r), || json!({"ms": case(), "call": format!("select_iter({}), first 3 items", r)}));
    }
    let mut idx: Vec<usize> = boundary_args(universe);
    for &(v, _) in runs {
        idx.extend([v.saturating_sub(1), v, v + 1]);
    }
    for k in 0..=16usize {
        idx.push(universe / 16 * k);
    }
    idx.sort_unstable();
    idx.dedup();
    for &i in &idx {
        let cls = arg_class(i, universe);
        if i < universe {
            ctx.expect(|| format!("{}.get[{}]", name, cls), guard(|| sv.get(i)), &ms.get(i), || json!({"ms": case(), "call": format!("get({})", i)}));
        }
        ctx.expect(|| format!("{}.rank[{}]", name, cls), guard(|| sv.rank(i)), &ms.rank(i), || json!({"ms": case(), "call": format!("rank({})", i)}));
        let want: Vec<(usize, usize)> = ms.succ(i).map(|(r, _)| tail(r)).unwrap_or_default();
        ctx.expect(|| format!("{}.successor[{}]", name, cls), guard(|| sv.successor(i).take(3).collect::<Vec<_>>()), &want, || json!({"ms": case(), "call": format!("successor({}), first 3 items", i)}));
        let want: Vec<(usize, usize)> = ms.pred(i).map(|(r, _)| tail(r)).unwrap_or_default();
        ctx.expect(|| format!("{}.predecessor[{}]", name, cls), guard(|| sv.predecessor(i).take(3).collect::<Vec<_>>()), &want, || json!({"ms": case(), "call": format!("predecessor({}), first 3 items", i)}));
    }
    let all: Vec<(usize, usize)> = values.iter().copied().enumerate().collect();
    ctx.expect(|| format!("{}.one_iter", name), guard(|| sv.one_iter().eq(all.iter().copied())), &true, || json!({"ms": case(), "call": "one_iter()"}));
    ctx.expect(|| format!("{}.one_iter.rev", name), guard(|| sv.one_iter().rev().eq(all.iter().rev().copied())), &true, || json!({"ms": case(), "call": "one_iter().rev()"}));
}

fn check_from_iter(ctx: &mut Ctx, seq: &[usize]) {
    let c = Case::FromIter { seq: seq.to_vec() };
    let case = || serde_json::to_value(&c).unwrap();
    ctx.announce(case);
    ctx.nontrivial(&c);
    let sorted = seq.windows(2).all(|w| w[0] <= w[1]);
    let got = guard(|| SparseVector::try_from_iter(seq.to_vec().into_iter()));
    match got {
        Ok(Ok(sv)) => {
            ctx.require(|| "SparseVector.try_from_iter[unsorted accepted]".to_string(), sorted, || json!({"ms": case(), "call": "try_from_iter"}), || json!({"observed": "Ok", "expected": "Err (the sequence is not non-decreasing)"}));
            if sorted {
                let universe = seq.last().map(|&l| l + 1).unwrap_or(0);
                check_multi(ctx, universe, seq, Some(&sv));
                // ... and equal to the vector the multiset builder produces.
                let same = guard(|| sparse_multiset(universe, seq) == sv);
                ctx.expect(|| "SparseVector.try_from_iter[== multiset builder]".to_string(), same, &true, || json!({"ms": case(), "call": "try_from_iter vs SparseBuilder::multiset"}));
            }
        }
        Ok(Err(e)) => {
            ctx.require(|| "SparseVector.try_from_iter[sorted refused]".to_string(), !sorted, || json!({"ms": case(), "call": "try_from_iter"}), || json!({"observed": format!("Err({})", e), "expected": "Ok"}));
        }
        Err(msg) => ctx.panic_violation("SparseVector.try_from_iter", &msg, None, || json!({"ms": case(), "call": "try_from_iter"})),
    }
}

fn explore(ctx: &mut Ctx) {
    let thorough = ctx.tier.is_thorough();
    // Every non-decreasing list over every small universe, incl. overfull ones.
    let (u_max, k_max) = if thorough { (9, 10) } else { (8, 9) };
    for universe in 0..=u_max {
        for k in 0..=k_max {
            if universe == 0 && k > 0 {
                continue;
            }
            enumr::words_exact(universe, k, &mut |w| {
                if w.windows(2).all(|p| p[0] <= p[1]) {
                    let c = Case::Multi { universe, values: w.to_vec() };
                    if ctx.mine(&c) {
                        ctx.sample_tagged("small-universe", || serde_json::to_value(&c).unwrap());
                        check_multi(ctx, universe, w, None);
                    }
                }
            });
        }
    }
    // Duplicates next to bucket boundaries for real low widths.
    for &universe in &[64usize, 200, 1024, 4096, 1 << 20] {
        for &distinct in &[2usize, 3, 4] {
            for &mult in &[1usize, 2, 5, 17] {
                // choose a width as the parameter rule would, then put values at bucket edges
                let ones = distinct * mult;
                let w = ((universe as f64 * 2.0_f64.ln()) / (ones as f64)).log2().max(1.0).round() as usize;
                let b = 1usize << w;
                let mut layouts: Vec<Vec<usize>> = vec![
                    vec![0, b - 1, b, universe - 1],
                    vec![b - 1, b, 2 * b - 1, 2 * b],
                    vec![0, 1, universe - 2, universe - 1],
                ];
                for l in layouts.iter_mut() {
                    l.retain(|&x| x < universe);
                    l.sort_unstable();
                    l.dedup();
                    l.truncate(distinct);
                }
                for l in layouts {
                    if l.len() != distinct {
                        continue;
                    }
                    // multiplicity patterns: all values `mult` times; only the first; only the last
                    for pattern in 0..3 {
                        let values: Vec<usize> = l.iter().enumerate().flat_map(|(i, &v)| {
                            let m = match pattern { 0 => mult, 1 => if i == 0 { mult } else { 1 }, _ => if i + 1 == l.len() { mult } else { 1 } };
                            std::iter::repeat(v).take(m)
                        }).collect();
                        let c = Case::Multi { universe, values: values.clone() };
                        if ctx.mine(&c) {
                            ctx.count("bucket_boundary_cases", 1);
                            ctx.sample_tagged("bucket-boundaries", || serde_json::to_value(&c).unwrap());
                            check_multi(ctx, universe, &values, None);
                        }
                    }
                }
            }
        }
    }
    // Huge universes (wide low parts, values near usize::MAX).
    for values in [vec![usize::MAX - 1], vec![1usize << 63], vec![(1usize << 63) + (1 << 62)], vec![usize::MAX - 1, usize::MAX - 1], vec![0, usize::MAX - 1],
                   vec![5, 5, 1 << 62, 1 << 62, (1 << 63) + 7], vec![(1 << 63) - 1, 1 << 63, 1 << 63], vec![1usize << 40; 3]] {
        let universe = values.last().unwrap() + 1;
        let c = Case::Multi { universe, values: values.clone() };
        if ctx.mine(&c) {
            ctx.count("huge_universe_cases", 1);
            ctx.sample_tagged("huge-universe", || serde_json::to_value(&c).unwrap());
            check_multi(ctx, universe, &values, None);
            check_from_iter(ctx, &values);
        }
    }
    // Many duplicates of one value, before / after / between other values and after thousands of empty buckets.
    let big = ctx.tier.pick(100_000, 300_000);
    for (universe, runs) in [
        (20_000usize, vec![(9000usize, 1usize), (10_000, big), (12_000, 1), (16_000, 1)]),
        (20_000, vec![(0, big), (19_999, 5000)]),
        (70_000, vec![(5, 3), (40_000, big), (40_001, 70_000), (69_999, 2)]),
        (300, vec![(10, 5000), (150, big), (299, 4097)]),
        (1 << 30, vec![(1 << 20, 17), (1 << 29, big), ((1 << 30) - 1, 4096)]),
    ] {
        for via_iter in [false, true] {
            let universe = if via_iter { runs.last().unwrap().0 + 1 } else { universe };
            let c = Case::Heavy { universe, runs: runs.clone(), via_iter };
            if ctx.mine(&c) {
                ctx.count("heavy_duplicate_cases", 1);
                ctx.sample_tagged("heavy-duplicates", || serde_json::to_value(&c).unwrap());
                check_heavy(ctx, universe, &runs, via_iter);
            }
        }
    }
    // try_from_iter over every sequence, sorted or not.
    let (alpha, len) = if thorough { (8, 7) } else { (6, 5) };
    enumr::words(alpha, len, |w| {
        let c = Case::FromIter { seq: w.to_vec() };
        if ctx.mine(&c) {
            ctx.count("from_iter_sequences", 1);
            ctx.sample_tagged("try_from_iter", || serde_json::to_value(&c).unwrap());
            check_from_iter(ctx, w);
        }
    });
}

fn replay(ctx: &mut Ctx, v: &Value) {
    let c: Case = serde_json::from_value(v["ms"].clone()).expect("replay: not a C15 case");
    match c {
        Case::Multi { universe, values } => check_multi(ctx, universe, &values, None),
        Case::FromIter { seq } => check_from_iter(ctx, &seq),
        Case::Heavy { universe, runs, via_iter } => check_heavy(ctx, universe, &runs, via_iter),
    }
}

fn main() {
    vcore::run_driver("C15", explore, replay, hook_hits);
}
