//! C13 — memory-mapped views expose exactly the serialized content at any offset.
//! E-input + E-fault: files made of every ordered pair (triple) of mappable catalogue values, views
//! at every structure start, bad offsets, and every 8-byte truncation of every file.

use drivers::catalogue::{self, Desc};
use drivers::*;
use serde::{Deserialize, Serialize};
use simple_sds::serialize::{MappingMode, MemoryMap};

#[derive(Serialize, Deserialize, Clone, Debug, Hash)]
struct Case {
    /// Elements of padding (arbitrary content) before the first structure.
    padding: usize,
    descs: Vec<Desc>,
    mutable: bool,
}

fn kind_of(d: &Desc) -> String {
    let s = format!("{:?}", d);
    s.split(|c: char| !c.is_alphanumeric()).next().unwrap_or("?").to_string()
}

fn check_case(ctx: &mut Ctx, c: &Case, sizes: Option<&[Vec<u8>]>) {
    let case = || serde_json::to_value(c).unwrap();
    ctx.announce(case);
    ctx.nontrivial(c);
    let built: Vec<Vec<u8>>;
    let parts: &[Vec<u8>] = match sizes {
        Some(s) => s,
        None => {
            built = c.descs.iter().map(|d| catalogue::build(d).bytes()).collect();
            &built
        }
    };
    let mut bytes: Vec<u8> = Vec::new();
    for i in 0..c.padding {
        bytes.extend_from_slice(&(0xABCD_0000_0000_0000u64 + i as u64).to_le_bytes());
    }
    let mut offsets: Vec<usize> = Vec::new();
    for p in parts {
        offsets.push(bytes.len() / 8);
        bytes.extend_from_slice(p);
    }
    let total = bytes.len() / 8;
    offsets.push(total);
    let path = ctx.scratch.join("c13.bin");
    let mode = if c.mutable { MappingMode::Mutable } else { MappingMode::ReadOnly };

    // Every truncation t (in elements), the complete file last... t = total is the intact file.
    for t in (0..=total).rev() {
        std::fs::write(&path, &bytes[..t * 8]).expect("scratch file");
        let map = match guard(|| MemoryMap::new(&path, mode)) {
            Ok(Ok(m)) => m,
            Ok(Err(_)) => {
                // Only the empty file may be refused.
                ctx.require(|| "MemoryMap.new[non-empty file]".to_string(), t == 0, || json!({"file": case(), "call": format!("MemoryMap::new of the file truncated to {} elements", t)}), || json!({"observed": "Err"}));
                continue;
            }
            Err(msg) => {
                ctx.panic_violation("MemoryMap.new", &msg, None, || json!({"file": case(), "call": format!("MemoryMap::new, {} elements", t)}));
                continue;
            }
        };
        for (k, d) in c.descs.iter().enumerate() {
            let (start, end) = (offsets[k], offsets[k + 1]);
            let kind = kind_of(d);
            let got = guard(|| catalogue::mapped_view(d, &map, start).expect("catalogue: value is not mappable").map_err(|e| e.to_string()));
            let callsite = || json!({"file": case(), "call": format!("view of structure {} ({}) at offset {} in the file truncated to {} of {} elements", k, kind, start, t, total)});
            // Whatever else holds: a view that is handed out must lie inside the map (otherwise indexing it
            // through the safe API reads memory the map does not cover).
            if let Ok(Ok(info)) = &got {
                ctx.require_in_bounds(|| format!("{}.view[lies inside the map]", kind), info.outside_map.is_none(), callsite, || json!({"observed": info.outside_map}));
            }
            if end <= t {
                // Intact: exposes exactly the content, and tiles the file.
                match got {
                    Ok(Ok(info)) => {
                        ctx.require(|| format!("{}.view[content]", kind), info.mismatch.is_none(), callsite, || json!({"observed": info.mismatch}));
                        ctx.expect(|| format!("{}.view[map_offset]", kind), Ok(info.offset), &start, callsite);
                        ctx.expect(|| format!("{}.view[map_offset+map_len = next offset]", kind), Ok(info.offset + info.len), &end, callsite);
                    }
                    Ok(Err(e)) => {
                        ctx.require(|| format!("{}.view[intact structure refused]", kind), false, callsite, || json!({"observed": format!("Err({})", e), "expected": "Ok"}));
                    }
                    Err(msg) => ctx.panic_violation(&format!("{}.view", kind), &msg, None, callsite),
                }
            } else {
                // Cut short (start < t < end) or entirely beyond the end (start >= t): refused.
                let cls = if start < t { "cut" } else { "beyond-end" };
                match got {
                    Ok(Ok(info)) => {
                        ctx.require(|| format!("{}.view[{} accepted]", kind, cls), false, callsite, || json!({"observed": format!("Ok(view with map_offset {} and map_len {})", info.offset, info.len), "expected": "Err"}));
                    }
                    Ok(Err(_)) => ctx.eval(),
                    Err(msg) => ctx.panic_violation(&format!("{}.view[{}]", kind, cls), &msg, Some("Err".to_string()), callsite),
                }
                if start < t {
                    ctx.count("cut_structures", 1);
                }
            }
        }
        // Offsets outside the file, for every view type in this file.
        if t == total {
            let l = map.len();
            for d in &c.descs {
                let kind = kind_of(d);
                for off in [l, l + 1, 2 * l, 1usize << 63, usize::MAX - 1, usize::MAX] {
                    let got = guard(|| catalogue::mapped_view(d, &map, off).unwrap().is_err());
                    ctx.expect(|| format!("{}.view[offset {}]", kind, if off == usize::MAX { "max" } else if off >= usize::MAX - 1 { "max-1" } else if off >= 1 << 63 { "2^63" } else { ">=len" }), got, &true, || json!({"file": case(), "call": format!("{} view at offset {} of a {}-element file", kind, off, l)}));
                }
            }
        }
        drop(map);
    }
    let _ = std::fs::remove_file(&path);
}

fn explore(ctx: &mut Ctx) {
    let thorough = ctx.tier.is_thorough();
    let cat: Vec<Desc> = catalogue::catalogue(thorough, ctx.seed_pattern()).into_iter().filter(catalogue::is_mappable).collect();
    let bytes: Vec<Vec<u8>> = cat.iter().map(|d| catalogue::build(d).bytes()).collect();
    ctx.count_max("mappable_catalogue_max_size", cat.len() as u64);
    let mut job = 0u64;
    // Singles with padding variants.
    for (i, d) in cat.iter().enumerate() {
        for padding in [0usize, 1, 3] {
            for mutable in [false, true] {
                job += 1;
                if ctx.mine_index(job) {
                    let c = Case { padding, descs: vec![d.clone()], mutable };
                    ctx.sample_tagged(&kind_of(d), || serde_json::to_value(&c).unwrap());
                    ctx.count("files", 1);
                    check_case(ctx, &c, Some(&[bytes[i].clone()]));
                }
            }
        }
    }
    // Every ordered pair.
    for i in 0..cat.len() {
        for j in 0..cat.len() {
            job += 1;
            if ctx.mine_index(job) {
                let c = Case { padding: (i + j) % 2 * 2, descs: vec![cat[i].clone(), cat[j].clone()], mutable: (i + j) % 3 == 0 };
                ctx.sample_tagged("pairs", || serde_json::to_value(&c).unwrap());
                ctx.count("files", 1);
                check_case(ctx, &c, Some(&[bytes[i].clone(), bytes[j].clone()]));
            }
        }
    }
    // Triples over a sub-catalogue.
    let step = (cat.len() / ctx.tier.pick(10, 30)).max(1);
    let sub: Vec<usize> = (0..cat.len()).step_by(step).collect();
    for &i in &sub {
        for &j in &sub {
            for &k in &sub {
                job += 1;
                if ctx.mine_index(job) {
                    let c = Case { padding: 0, descs: vec![cat[i].clone(), cat[j].clone(), cat[k].clone()], mutable: false };
                    ctx.sample_tagged("triples", || serde_json::to_value(&c).unwrap());
                    ctx.count("files", 1);
                    check_case(ctx, &c, Some(&[bytes[i].clone(), bytes[j].clone(), bytes[k].clone()]));
                }
            }
        }
    }
}

fn replay(ctx: &mut Ctx, v: &Value) {
    let c: Case = serde_json::from_value(v["file"].clone()).expect("replay: not a C13 case");
    check_case(ctx, &c, None);
}

fn main() {
    vcore::run_driver("C13", explore, replay, hook_hits);
}
