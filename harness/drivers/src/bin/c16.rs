//! C16 — builders reject invalid steps without side effects and build what was accepted.
//! E-hist: breadth-first search over call sequences on the real SparseBuilder / RLBuilder; states are
//! deduplicated on the builder's `Debug` rendering (its only complete view).

use drivers::*;
use serde::{Deserialize, Serialize};
use simple_sds::ops::{BitVec, PredSucc, Rank, Select};
use simple_sds::rl_vector::{RLBuilder, RLVector};
use simple_sds::sparse_vector::{SparseBuilder, SparseVector};
use std::collections::HashSet;
use std::convert::TryFrom;

//-----------------------------------------------------------------------------
// SparseBuilder

#[derive(Serialize, Deserialize, Clone, Debug, Hash, PartialEq, Eq)]
struct SParams {
    universe: usize,
    capacity: usize,
    multiset: bool,
}

#[derive(Serialize, Deserialize, Clone, Debug, Hash, PartialEq, Eq)]
enum SAct {
    TrySet(usize),
    Set(usize),
    Extend(Vec<usize>),
    /// `extend` with an iterator that does not know its length (lower size hint 0).
    ExtendLazy(Vec<usize>),
    /// `set_unchecked` inside its documented contract (only generated for admissible positions).
    SetUnchecked(usize),
}

#[derive(Clone, Debug)]
struct SRef {
    p: SParams,
    accepted: Vec<usize>,
}

impl SRef {
    fn next(&self) -> usize {
        match self.accepted.last() {
            None => 0,
            Some(&l) => l + if self.p.multiset { 0 } else { 1 },
        }
    }
    fn admissible(&self, i: usize) -> bool {
        self.accepted.len() < self.p.capacity && i >= self.next() && i < self.p.universe
    }
}

fn s_new(p: &SParams) -> Result<SparseBuilder, String> {
    if p.multiset {
        Ok(SparseBuilder::multiset(p.universe, p.capacity))
    } else {
        SparseBuilder::new(p.universe, p.capacity).map_err(|e| e.to_string())
    }
}

/// "Builds what was accepted": the converted vector answers every present-value query like the sorted
/// list of accepted positions (all indexes of small universes; the accepted positions +-1 otherwise).
fn sv_problem(sv: &SparseVector, universe: usize, accepted: &[usize]) -> Option<String> {
    let got: Vec<usize> = sv.one_iter().map(|(_, p)| p).collect();
    if got != accepted || sv.len() != universe || sv.count_ones() != accepted.len() {
        return Some(format!("converted vector has positions {:?} (len {}, count_ones {}), accepted were {:?} (universe {})", got, sv.len(), sv.count_ones(), accepted, universe));
    }
    let mut idx: Vec<usize> = if universe <= 80 { (0..=universe + 1).collect() } else { accepted.iter().flat_map(|&v| [v.saturating_sub(1), v, v.saturating_add(1)]).chain([0, universe - 1, universe]).collect() };
    idx.sort_unstable();
    idx.dedup();
    for &i in &idx {
        let rank = accepted.iter().filter(|&&v| v < i).count();
        if sv.rank(i) != rank {
            return Some(format!("converted vector: rank({}) = {}, expected {} (accepted {:?})", i, sv.rank(i), rank, accepted));
        }
        if i < universe && sv.get(i) != accepted.contains(&i) {
            return Some(format!("converted vector: get({}) = {}, accepted {:?}", i, sv.get(i), accepted));
        }
        let succ = accepted.iter().copied().enumerate().find(|&(_, v)| v >= i);
        if sv.successor(i).next() != succ {
            return Some(format!("converted vector: successor({}) = {:?}, expected {:?}", i, sv.successor(i).next(), succ));
        }
        let pred = accepted.iter().copied().enumerate().filter(|&(_, v)| v <= i).last();
        if sv.predecessor(i).next() != pred {
            return Some(format!("converted vector: predecessor({}) = {:?}, expected {:?}", i, sv.predecessor(i).next(), pred));
        }
    }
    for r in 0..=accepted.len() {
        if sv.select(r) != accepted.get(r).copied() {
            return Some(format!("converted vector: select({}) = {:?}, expected {:?}", r, sv.select(r), accepted.get(r)));
        }
    }
    None
}

fn s_observe(b: &SparseBuilder, r: &SRef) -> Option<String> {
    let want = (r.accepted.len(), r.next(), r.accepted.len() == r.p.capacity, r.accepted.is_empty(), r.p.capacity, r.p.universe, r.p.multiset);
    let got = (b.len(), b.next_index(), b.is_full(), b.is_empty(), b.capacity(), b.universe(), b.is_multiset());
    if got != want {
        return Some(format!("(len, next_index, is_full, is_empty, capacity, universe, is_multiset) = {:?}, expected {:?}", got, want));
    }
    // Conversion succeeds exactly when the builder is full, and yields exactly the accepted positions.
    let conv = SparseVector::try_from(b.clone());
    let full = r.accepted.len() == r.p.capacity;
    match conv {
        Ok(sv) => {
            if !full {
                return Some("try_from succeeded on a builder that is not full".to_string());
            }
            if let Some(msg) = sv_problem(&sv, r.p.universe, &r.accepted) {
                return Some(msg);
            }
        }
        Err(_) => {
            if full {
                return Some("try_from failed on a full builder".to_string());
            }
            // Complete a clone with the smallest admissible indices, if there is room.
            let mut c = b.clone();
            let mut all = r.accepted.clone();
            let mut rr = r.clone();
            let mut ok = true;
            while rr.accepted.len() < rr.p.capacity {
                let i = rr.next();
                if i >= rr.p.universe {
                    ok = false;
                    break;
                }
                if c.try_set(i).is_err() {
                    return Some(format!("completion: try_set({}) refused although admissible", i));
                }
                rr.accepted.push(i);
                all.push(i);
            }
            if ok {
                match SparseVector::try_from(c) {
                    Ok(sv) => {
                        if let Some(msg) = sv_problem(&sv, r.p.universe, &all) {
                            return Some(format!("completed builder: {}", msg));
                        }
                    }
                    Err(e) => return Some(format!("completed builder does not convert: {}", e)),
                }
            }
        }
    }
    None
}

fn s_actions(r: &SRef) -> Vec<SAct> {
    let (n, u) = (r.next(), r.p.universe);
    let mut idx = vec![0usize, 1, 2, n, n.saturating_add(1), u, u.saturating_add(1), usize::MAX];
    if n > 0 {
        idx.push(n - 1);
    }
    if u > 0 {
        idx.push(u - 1);
    }
    idx.sort_unstable();
    idx.dedup();
    let mut a: Vec<SAct> = Vec::new();
    for &i in &idx {
        a.push(SAct::TrySet(i));
    }
    for &i in &idx {
        a.push(SAct::Set(i));
    }
    a.push(SAct::Extend(vec![]));
    a.push(SAct::Extend(vec![n]));
    a.push(SAct::Extend(vec![n, n.saturating_add(1)]));
    a.push(SAct::Extend(vec![n, n]));
    if n > 0 {
        a.push(SAct::Extend(vec![n - 1, n]));
    }
    a.push(SAct::Extend(vec![u]));
    a.push(SAct::ExtendLazy(vec![n]));
    a.push(SAct::ExtendLazy(vec![n, n.saturating_add(1)]));
    a.push(SAct::ExtendLazy(vec![n, n.saturating_add(1), n.saturating_add(2)]));
    a.push(SAct::ExtendLazy(vec![n, u]));
    for i in [n, n.saturating_add(1)] {
        if r.admissible(i) {
            a.push(SAct::SetUnchecked(i));
        }
    }
    a
}

/// Applies one call to the real builder and the reference; returns a mismatch description.
// A refused call must leave every observable property unchanged: the reference is not advanced, and
// `s_observe` then compares all getters and the converted vector (also of a completed clone) with it; the
// search continues from the state after the refused call, so any residue shows in later calls as well.
fn s_apply(b: &mut SparseBuilder, r: &mut SRef, act: &SAct) -> Option<String> {
    match act {
        SAct::TrySet(i) => {
            let ok = r.admissible(*i);
            let got = b.try_set(*i);
            if got.is_ok() != ok {
                return Some(format!("try_set({}) returned {:?}, expected {}", i, got, if ok { "Ok" } else { "Err" }));
            }
            if ok {
                r.accepted.push(*i);
            }
        }
        SAct::Set(i) => {
            let ok = r.admissible(*i);
            let got = guard(|| b.set(*i));
            if got.is_ok() != ok {
                return Some(format!("set({}) {}, expected {}", i, if got.is_ok() { "returned" } else { "panicked" }, if ok { "acceptance" } else { "the documented panic" }));
            }
            if ok {
                r.accepted.push(*i);
            }
        }
        SAct::SetUnchecked(i) => {
            if !r.admissible(*i) {
                return None; // outside the contract of the unchecked call: not a C16 case
            }
            unsafe { b.set_unchecked(*i) };
            r.accepted.push(*i);
        }
        SAct::Extend(list) | SAct::ExtendLazy(list) => {
            let lazy = matches!(act, SAct::ExtendLazy(_));
            let mut rr = r.clone();
            let mut all_ok = true;
            for &i in list {
                if rr.admissible(i) {
                    rr.accepted.push(i);
                } else {
                    all_ok = false;
                    break;
                }
            }
            let before = r.accepted.len();
            let valid_prefix = rr.accepted.len() - before;
            let got = if lazy { guard(|| b.extend(list.iter().copied().filter(|_| true))) } else { guard(|| b.extend(list.iter().copied())) };
            if got.is_ok() != all_ok {
                return Some(format!("extend({:?}) {}, expected {}", list, if got.is_ok() { "returned" } else { "panicked" }, if all_ok { "acceptance" } else { "the documented panic" }));
            }
            if all_ok {
                *r = rr;
            } else {
                // The call panicked at the first invalid element. How many of the valid elements before it
                // were accepted is not specified, but it must be a prefix of them, and the builder must be
                // exactly the builder that accepted that prefix (checked by `s_observe`).
                let k = b.len().wrapping_sub(before);
                if k > valid_prefix {
                    return Some(format!("extend({:?}) panicked and left len() = {}, but the builder held {} values before and only {} of the new ones were valid", list, b.len(), before, valid_prefix));
                }
                r.accepted.extend_from_slice(&list[..k]);
            }
        }
    }
    s_observe(b, r)
}

fn s_name(a: &SAct) -> &'static str {
    match a {
        SAct::TrySet(_) => "try_set",
        SAct::Set(_) => "set",
        SAct::Extend(_) => "extend",
        SAct::ExtendLazy(_) => "extend(lazy)",
        SAct::SetUnchecked(_) => "set_unchecked",
    }
}

fn s_bfs(ctx: &mut Ctx, p: &SParams, depth: usize) {
    let case0 = || json!({"Sparse": {"params": p, "acts": []}});
    let b0 = match guard(|| s_new(p)) {
        Ok(Ok(b)) => {
            if !p.multiset && p.capacity > p.universe {
                ctx.require(|| "SparseBuilder.new[ones>universe]".to_string(), false, case0, || json!({"observed": "Ok", "expected": "Err"}));
                return;
            }
            b
        }
        Ok(Err(e)) => {
            ctx.require(|| "SparseBuilder.new".to_string(), !p.multiset && p.capacity > p.universe, case0, || json!({"observed": format!("Err({})", e), "expected": "Ok"}));
            return;
        }
        Err(msg) => {
            ctx.panic_violation("SparseBuilder.new", &msg, None, case0);
            return;
        }
    };
    let r0 = SRef { p: p.clone(), accepted: vec![] };
    match guard(|| s_observe(&b0, &r0)) {
        Ok(None) => {}
        Ok(Some(msg)) => {
            ctx.violation("SparseBuilder.new/wrong", case0(), json!({"observed": msg}));
            return;
        }
        Err(msg) => {
            ctx.panic_violation("SparseBuilder.new[observe]", &msg, None, case0);
            return;
        }
    }
    let mut seen: HashSet<String> = HashSet::new();
    seen.insert(format!("{:?}", b0));
    ctx.states += 1;
    let mut frontier = vec![(b0, r0, Vec::<SAct>::new())];
    for d in 0..depth {
        let mut next = Vec::new();
        for (b, r, hist) in &frontier {
            for act in s_actions(r) {
                let mut b2 = b.clone();
                let mut r2 = r.clone();
                let case = || {
                    let mut acts = hist.clone();
                    acts.push(act.clone());
                    json!({"Sparse": {"params": p, "acts": acts}})
                };
                ctx.announce(case);
                ctx.transitions += 1;
                match guard(|| s_apply(&mut b2, &mut r2, &act)) {
                    Ok(None) => ctx.eval(),
                    Ok(Some(msg)) => {
                        ctx.require(|| format!("SparseBuilder.{}", s_name(&act)), false, case, || json!({"observed": msg}));
                        continue;
                    }
                    Err(msg) => {
                        ctx.panic_violation(&format!("SparseBuilder.{}", s_name(&act)), &msg, None, case);
                        continue;
                    }
                }
                if seen.insert(format!("{:?}", b2)) {
                    ctx.states += 1;
                    if ctx.states % 512 == 3 {
                        ctx.sample_tagged("sparse-builder-history", case);
                    }
                    if d + 1 < depth {
                        let mut h = hist.clone();
                        h.push(act.clone());
                        next.push((b2, r2, h));
                    }
                }
            }
        }
        frontier = next;
    }
    ctx.nontrivial_by_construction(seen.len() as u64);
}

fn s_replay(ctx: &mut Ctx, p: &SParams, acts: &[SAct]) {
    let case0 = || json!({"Sparse": {"params": p, "acts": []}});
    let mut b = match guard(|| s_new(p)) {
        Ok(Ok(b)) => {
            if !p.multiset && p.capacity > p.universe {
                ctx.require(|| "SparseBuilder.new[ones>universe]".to_string(), false, case0, || json!({"observed": "Ok", "expected": "Err"}));
                return;
            }
            b
        }
        Ok(Err(e)) => {
            ctx.require(|| "SparseBuilder.new".to_string(), !p.multiset && p.capacity > p.universe, case0, || json!({"observed": format!("Err({})", e), "expected": "Ok"}));
            return;
        }
        Err(msg) => {
            ctx.panic_violation("SparseBuilder.new", &msg, None, case0);
            return;
        }
    };
    let mut r = SRef { p: p.clone(), accepted: vec![] };
    match guard(|| s_observe(&b, &r)) {
        Ok(None) => {}
        Ok(Some(msg)) => {
            ctx.violation("SparseBuilder.new/wrong", case0(), json!({"observed": msg}));
            return;
        }
        Err(msg) => {
            ctx.panic_violation("SparseBuilder.new[observe]", &msg, None, case0);
            return;
        }
    }
    for (k, act) in acts.iter().enumerate() {
        let case = || json!({"Sparse": {"params": p, "acts": &acts[..=k]}});
        ctx.transitions += 1;
        match guard(|| s_apply(&mut b, &mut r, act)) {
            Ok(None) => {}
            Ok(Some(msg)) => {
                ctx.require(|| format!("SparseBuilder.{}", s_name(act)), false, case, || json!({"observed": msg}));
                return;
            }
            Err(msg) => {
                ctx.panic_violation(&format!("SparseBuilder.{}", s_name(act)), &msg, None, case);
                return;
            }
        }
    }
}

//-----------------------------------------------------------------------------
// RLBuilder

#[derive(Serialize, Deserialize, Clone, Debug, Hash, PartialEq, Eq)]
enum RAct {
    TrySet(usize, usize),
    SetLen(usize),
}

#[derive(Clone, Debug, Default)]
struct RRef {
    len: u128,
    runs: Vec<(u128, u128)>,
}

impl RRef {
    fn ones(&self) -> u128 {
        self.runs.iter().map(|r| r.1).sum()
    }
}

fn r_actions(len: usize) -> Vec<RAct> {
    let mut starts = vec![len, len.saturating_add(1), len.saturating_add(7), 1usize << 62];
    if len > 0 {
        starts.push(len - 1);
        starts.push(0);
    }
    starts.sort_unstable();
    starts.dedup();
    let mut a = Vec::new();
    for &s in &starts {
        let mut lens = vec![0usize, 1, 3, 1 << 20, usize::MAX - s];
        if s > 0 {
            lens.push(usize::MAX - s + 1); // start + len = 2^64: must be refused
        }
        lens.push(usize::MAX);
        lens.sort_unstable();
        lens.dedup();
        for l in lens {
            a.push(RAct::TrySet(s, l));
        }
    }
    let mut ns = vec![len, len.saturating_add(1), len.saturating_add(9), 0];
    if len > 0 {
        ns.push(len - 1);
    }
    ns.sort_unstable();
    ns.dedup();
    for n in ns {
        a.push(RAct::SetLen(n));
    }
    a
}

fn r_observe(b: &RLBuilder, r: &RRef) -> Option<String> {
    let got = (b.len() as u128, b.count_ones() as u128, b.count_zeros() as u128, b.is_empty());
    let want = (r.len, r.ones(), r.len - r.ones(), r.len == 0);
    if got != want {
        return Some(format!("(len, count_ones, count_zeros, is_empty) = {:?}, expected {:?}", got, want));
    }
    let rl = RLVector::from(b.clone());
    let m = Bits::from_runs(r.len, &r.runs);
    let runs: Vec<(u128, u128)> = rl.run_iter().map(|(s, l)| (s as u128, l as u128)).collect();
    if runs != m.runs || rl.len() as u128 != r.len || rl.count_ones() as u128 != r.ones() {
        let show = |v: &Vec<(u128, u128)>| if v.len() > 12 { format!("{} runs starting {:?}", v.len(), &v[..6]) } else { format!("{:?}", v) };
        return Some(format!("converted vector has runs {} (len {}), accepted runs (merged) are {} (len {})", show(&runs), rl.len(), show(&m.runs), r.len));
    }
    // "Builds what was accepted": the converted vector also answers position and rank queries at the edges of the
    // first and last runs like the accepted runs (the queries use indexes that the run iterator does not).
    use simple_sds::ops::{PredSucc, Rank, Select};
    let picked: Vec<&(u128, u128)> = m.runs.iter().take(12).chain(m.runs.iter().rev().take(12)).collect();
    let mut idx: Vec<u128> = vec![0, r.len.saturating_sub(1), r.len];
    for &&(s, l) in &picked {
        idx.extend([s.saturating_sub(1), s, s + l - 1, s + l]);
    }
    for k in 0..=16u128 {
        idx.push(r.len / 16 * k);
    }
    idx.sort_unstable();
    idx.dedup();
    for &i in &idx {
        if i > usize::MAX as u128 {
            continue;
        }
        let iu = i as usize;
        if i < r.len && rl.get(iu) != m.get(i) {
            return Some(format!("converted vector: get({}) = {}, expected {}", iu, rl.get(iu), m.get(i)));
        }
        if rl.rank(iu) as u128 != m.rank(i) {
            return Some(format!("converted vector: rank({}) = {}, expected {}", iu, rl.rank(iu), m.rank(i)));
        }
        let want = m.succ(i).map(|(rk, p)| (rk as usize, p as usize));
        if rl.successor(iu).next() != want {
            return Some(format!("converted vector: successor({}) = {:?}, expected {:?}", iu, rl.successor(iu).next(), want));
        }
        let want = m.pred(i).map(|(rk, p)| (rk as usize, p as usize));
        if rl.predecessor(iu).next() != want {
            return Some(format!("converted vector: predecessor({}) = {:?}, expected {:?}", iu, rl.predecessor(iu).next(), want));
        }
    }
    let ones = r.ones();
    for rk in [0u128, 1, ones / 2, ones.saturating_sub(1), ones] {
        if rk <= usize::MAX as u128 && rl.select(rk as usize).map(|p| p as u128) != m.select(rk) {
            return Some(format!("converted vector: select({}) = {:?}, expected {:?}", rk, rl.select(rk as usize), m.select(rk)));
        }
    }
    None
}

/// One long history (640 short runs: about twenty blocks, block starts in several buckets of the sample indexes),
/// observed at a few points and at the end - the short histories of the search never leave the first block.
fn r_long(ctx: &mut Ctx) {
    let acts: Vec<RAct> = {
        let mut v = Vec::new();
        let mut at = 0usize;
        for i in 0..640usize {
            let (g, l) = (1 + i % 3, 1 + i % 2);
            v.push(RAct::TrySet(at + g, l));
            at += g + l;
        }
        v.push(RAct::SetLen(at + 9));
        v
    };
    r_history(ctx, acts, 97);
}

/// Histories that reach every fill level of a block before the widest runs the encoding allows: `fill` code
/// units of tiny runs, then a run with a gap of 2^63 and / or a length of 2^60 + 1, then two more runs.
fn r_block_fill(ctx: &mut Ctx) {
    for fill in (0..=66usize).step_by(2) {
        for &(wide_gap, wide_len) in &[(1usize << 63, (1usize << 60) + 1), (1usize << 63, 1usize), (2usize, (1usize << 60) + 1)] {
            let mut v = Vec::new();
            let mut at = 0usize;
            for _ in 0..fill / 2 {
                v.push(RAct::TrySet(at + 1, 1));
                at += 2;
            }
            for (g, l) in [(wide_gap, wide_len), (1, 1), (7, 2)] {
                v.push(RAct::TrySet(at + g, l));
                at += g + l;
            }
            v.push(RAct::SetLen(at + 3));
            r_history(ctx, v, 1);
        }
    }
}

/// Applies one given history, observing the builder every `every` steps and at the end.
fn r_history(ctx: &mut Ctx, acts: Vec<RAct>, every: usize) {
    let case = || json!({"Rl": {"acts": acts}});
    ctx.announce(case);
    ctx.nontrivial(&"rl-long-history");
    let mut b = RLBuilder::new();
    let mut r = RRef::default();
    for (k, act) in acts.iter().enumerate() {
        // apply without observing at every step (the conversion is linear in the history)
        let observe = k % every == 0 || k + 2 >= acts.len();
        let got = guard(|| {
            match *act {
                RAct::TrySet(s, l) => {
                    if b.try_set(s, l).is_err() {
                        return Some(format!("try_set({}, {}) refused", s, l));
                    }
                    r.runs.push((s as u128, l as u128));
                    r.len = (s + l) as u128;
                }
                RAct::SetLen(n) => {
                    b.set_len(n);
                    r.len = r.len.max(n as u128);
                }
            }
            if observe { r_observe(&b, &r) } else { None }
        });
        ctx.transitions += 1;
        match got {
            Ok(None) => ctx.eval(),
            Ok(Some(msg)) => {
                ctx.require(|| format!("RLBuilder.{}[long history]", r_name(act)), false, case, || json!({"observed": msg, "step": k}));
                return;
            }
            Err(msg) => {
                ctx.panic_violation(&format!("RLBuilder.{}[long history]", r_name(act)), &msg, None, case);
                return;
            }
        }
    }
}

fn r_apply(b: &mut RLBuilder, r: &mut RRef, act: &RAct) -> Option<String> {
    match *act {
        RAct::TrySet(s, l) => {
            let ok = (s as u128) >= r.len && (s as u128 + l as u128) <= usize::MAX as u128;
            let got = b.try_set(s, l);
            if got.is_ok() != ok {
                return Some(format!("try_set({}, {}) returned {:?}, expected {}", s, l, got.map_err(|_| "Err"), if ok { "Ok" } else { "Err" }));
            }
            if ok {
                if l > 0 {
                    r.runs.push((s as u128, l as u128));
                    r.len = s as u128 + l as u128;
                }
            }
        }
        RAct::SetLen(n) => {
            b.set_len(n);
            if (n as u128) > r.len {
                r.len = n as u128;
            }
        }
    }
    r_observe(b, r)
}

fn r_name(a: &RAct) -> &'static str {
    match a {
        RAct::TrySet(..) => "try_set",
        RAct::SetLen(_) => "set_len",
    }
}

/// Input-class word for signatures: what preceded the failing call.
fn r_class(hist: &[RAct], act: &RAct) -> &'static str {
    match (hist.last(), act) {
        (Some(RAct::SetLen(_)), RAct::TrySet(..)) => "after-set_len",
        (Some(RAct::TrySet(..)), RAct::TrySet(..)) => "after-try_set",
        (None, _) => "first-call",
        _ => "other",
    }
}

fn r_bfs(ctx: &mut Ctx, depth: usize) {
    let b0 = RLBuilder::new();
    let r0 = RRef::default();
    let mut seen: HashSet<String> = HashSet::new();
    seen.insert(format!("{:?}", b0));
    ctx.states += 1;
    let mut frontier = vec![(b0, r0, Vec::<RAct>::new())];
    let mut job = 0u64;
    for d in 0..depth {
        let mut next = Vec::new();
        for (b, r, hist) in &frontier {
            for act in r_actions(r.len as usize) {
                job += 1;
                // Shard on the first action (depth 0): all workers share the root.
                if d == 0 && !ctx.mine_index(job) {
                    continue;
                }
                let mut b2 = b.clone();
                let mut r2 = r.clone();
                let case = || {
                    let mut acts = hist.clone();
                    acts.push(act.clone());
                    json!({"Rl": {"acts": acts}})
                };
                ctx.announce(case);
                ctx.transitions += 1;
                match guard(|| r_apply(&mut b2, &mut r2, &act)) {
                    Ok(None) => ctx.eval(),
                    Ok(Some(msg)) => {
                        ctx.require(|| format!("RLBuilder.{}[{}]", r_name(&act), r_class(hist, &act)), false, case, || json!({"observed": msg}));
                        continue;
                    }
                    Err(msg) => {
                        ctx.panic_violation(&format!("RLBuilder.{}[{}]", r_name(&act), r_class(hist, &act)), &msg, None, case);
                        continue;
                    }
                }
                if seen.insert(format!("{:?}", b2)) {
                    ctx.states += 1;
                    if ctx.states % 2048 == 5 {
                        ctx.sample_tagged("rl-builder-history", case);
                    }
                    if d + 1 < depth {
                        let mut h = hist.clone();
                        h.push(act.clone());
                        next.push((b2, r2, h));
                    }
                }
            }
        }
        frontier = next;
    }
    ctx.nontrivial_by_construction(seen.len() as u64);
}

fn r_replay(ctx: &mut Ctx, acts: &[RAct]) {
    let mut b = RLBuilder::new();
    let mut r = RRef::default();
    for (k, act) in acts.iter().enumerate() {
        let case = || json!({"Rl": {"acts": &acts[..=k]}});
        ctx.transitions += 1;
        match guard(|| r_apply(&mut b, &mut r, act)) {
            Ok(None) => {}
            Ok(Some(msg)) => {
                ctx.require(|| format!("RLBuilder.{}[{}]", r_name(act), r_class(&acts[..k], act)), false, case, || json!({"observed": msg}));
                return;
            }
            Err(msg) => {
                ctx.panic_violation(&format!("RLBuilder.{}[{}]", r_name(act), r_class(&acts[..k], act)), &msg, None, case);
                return;
            }
        }
    }
}

//-----------------------------------------------------------------------------

#[derive(Serialize, Deserialize, Clone, Debug)]
enum Case {
    Sparse { params: SParams, acts: Vec<SAct> },
    Rl { acts: Vec<RAct> },
}

fn explore(ctx: &mut Ctx) {
    let depth = ctx.tier.pick(5, 7);
    let mut job = 0u64;
    for &universe in &[0usize, 1, 2, 5, 8, 70] {
        for capacity in 0..=4usize {
            for multiset in [false, true] {
                job += 1;
                if ctx.mine_index(job) {
                    ctx.count("sparse_parameter_sets", 1);
                    s_bfs(ctx, &SParams { universe, capacity, multiset }, depth);
                }
            }
        }
    }
    // Universes near 2^63 .. 2^64 (wide low parts; the bucket arithmetic must not overflow).
    for &(universe, capacity) in &[(usize::MAX, 1usize), (usize::MAX, 3), (usize::MAX - 1000, 2), ((1usize << 63) + 2, 1), ((1usize << 63) + (1 << 62), 3)] {
        for multiset in [false, true] {
            job += 1;
            if ctx.mine_index(job) {
                ctx.count("huge_universe_parameter_sets", 1);
                s_bfs(ctx, &SParams { universe, capacity, multiset }, depth.min(4));
            }
        }
    }
    r_bfs(ctx, ctx.tier.pick(5, 7));
    if ctx.mine_index(7) {
        r_long(ctx);
    }
    if ctx.mine_index(8) {
        r_block_fill(ctx);
    }
}

fn replay(ctx: &mut Ctx, v: &Value) {
    let c: Case = serde_json::from_value(v.clone()).expect("replay: not a C16 case");
    match c {
        Case::Sparse { params, acts } => s_replay(ctx, &params, &acts),
        Case::Rl { acts } if acts.len() > 100 => r_long(ctx),
        Case::Rl { acts } if acts.iter().any(|a| matches!(a, RAct::TrySet(_, l) if *l > (1 << 59))) || acts.iter().any(|a| matches!(a, RAct::TrySet(s, _) if *s >= (1 << 63))) => r_history(ctx, acts, 1),
        Case::Rl { acts } => r_replay(ctx, &acts),
    }
}

fn main() {
    vcore::run_driver("C16", explore, replay, hook_hits);
}
