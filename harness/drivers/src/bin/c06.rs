//! C06 — serialization round trip is the identity and sizes are exact.
//! E-input over a catalogue of every Serialize type, all concatenations of pairs (triples), the
//! small scope of all three bitvector types, with short-read readers and short-write sinks.

use drivers::catalogue::{self, BitsDesc, Desc, Ser};
use drivers::*;
use serde::{Deserialize, Serialize};
use simple_sds::bit_vector::BitVector;
use simple_sds::int_vector::IntVector;
use simple_sds::ops::{Access, Vector, VectorIndex};
use simple_sds::raw_vector::RawVector;
use simple_sds::rl_vector::RLVector;
use simple_sds::serialize::Serialize as SdsSerialize;
use simple_sds::sparse_vector::SparseVector;
use simple_sds::wavelet_matrix::WaveletMatrix;
use vcore::faultio::{CountingReader, ShortReader, ShortWriter};

#[derive(Serialize, Deserialize, Clone, Debug, Hash)]
enum Case {
    Single(Desc),
    Concat(Vec<Desc>),
    RawSizeByParams(usize),
    IntSizeByParams(usize, usize),
    /// Structures of many megabytes (loaders may read them in pieces): kind and number of items.
    Large(String, usize),
}

fn kind_of(d: &Desc) -> String {
    let s = format!("{:?}", d);
    s.split(|c: char| !c.is_alphanumeric()).next().unwrap_or("?").to_string()
}

/// Query equivalence of a loaded value with the content it was built from.
fn check_answers(ctx: &mut Ctx, d: &Desc, loaded: &dyn Ser, case: &dyn Fn() -> Value) {
    match d {
        Desc::Bv { bits, .. } => {
            let m = bits.model();
            if let Some(bv) = loaded.as_any().downcast_ref::<BitVector>() {
                let mut bv = bv.clone();
                enable_all(&mut bv);
                let q = if m.len <= 600 { Queries::exhaustive(&m) } else { Queries::edges(&m, &[64, 512], &[64, 4096], 60, true) };
                check_bitvec!(ctx, &bv, &m, "BitVector(loaded)", &q, case);
            }
        }
        Desc::Sparse(bits) => {
            let m = bits.model();
            if let Some(sv) = loaded.as_any().downcast_ref::<SparseVector>() {
                let q = if m.len <= 600 { Queries::exhaustive(&m) } else { Queries::edges(&m, &[], &[16], 40, m.len <= 100_000) };
                check_bitvec!(ctx, sv, &m, "SparseVector(loaded)", &q, case);
            }
        }
        Desc::Rl(bits) => {
            let m = bits.model();
            if let Some(rl) = loaded.as_any().downcast_ref::<RLVector>() {
                let q = if m.len <= 600 { Queries::exhaustive(&m) } else { Queries::edges(&m, &[], &[], 40, m.len <= 100_000) };
                check_bitvec!(ctx, rl, &m, "RLVector(loaded)", &q, case);
            }
        }
        Desc::Wm(values) => {
            if let Some(wm) = loaded.as_any().downcast_ref::<WaveletMatrix>() {
                let got = guard(|| wm.iter().collect::<Vec<u64>>());
                ctx.expect(|| "WaveletMatrix(loaded).iter".to_string(), got, values, || json!({"x": case(), "call": "iter()"}));
                let max = values.iter().copied().max().unwrap_or(0);
                let mut vs: Vec<u64> = values.clone();
                vs.push(max + 1);
                vs.sort_unstable();
                vs.dedup();
                for v in vs {
                    let occ: Vec<usize> = values.iter().enumerate().filter(|(_, &x)| x == v).map(|(i, _)| i).collect();
                    for i in 0..=values.len() + 1 {
                        let want = occ.iter().filter(|&&p| p < i).count();
                        ctx.expect(|| "WaveletMatrix(loaded).rank".to_string(), guard(|| wm.rank(i, v)), &want, || json!({"x": case(), "call": format!("rank({}, {})", i, v)}));
                    }
                    for r in 0..=occ.len() {
                        ctx.expect(|| "WaveletMatrix(loaded).select".to_string(), guard(|| wm.select(r, v)), &occ.get(r).copied(), || json!({"x": case(), "call": format!("select({}, {})", r, v)}));
                    }
                }
            }
        }
        Desc::Int { values, width } | Desc::IntHist { values, width } => {
            if let Some(iv) = loaded.as_any().downcast_ref::<IntVector>() {
                let got = guard(|| (iv.iter().collect::<Vec<u64>>(), iv.width(), iv.len()));
                ctx.expect(|| "IntVector(loaded).iter".to_string(), got, &(values.clone(), *width, values.len()), || json!({"x": case(), "call": "iter()"}));
            }
        }
        _ => {}
    }
}

fn check_single(ctx: &mut Ctx, d: &Desc) {
    let case = || json!({"Single": d});
    ctx.announce(case);
    let kind = kind_of(d);
    ctx.sample_tagged(&kind, case);
    ctx.note("kinds", &kind);
    let x = match guard(|| catalogue::build(d)) {
        Ok(x) => x,
        Err(msg) => {
            ctx.panic_violation(&format!("{}.construct", kind), &msg, None, || json!({"x": case(), "call": "build"}));
            return;
        }
    };
    let bytes = match guard(|| x.bytes()) {
        Ok(b) => b,
        Err(msg) => {
            ctx.panic_violation(&format!("{}.serialize", kind), &msg, None, || json!({"x": case(), "call": "serialize"}));
            return;
        }
    };
    if bytes.len() > 8 {
        ctx.nontrivial(d);
    }
    let sizes = guard(|| (x.size_elems(), x.size_bytes()));
    ctx.expect(|| format!("{}.size_in_elements/size_in_bytes", kind), sizes, &(bytes.len() / 8, bytes.len()), || json!({"x": case(), "call": "size_in_elements(), size_in_bytes() vs bytes written"}));
    ctx.require(|| format!("{}.serialize(multiple of 8)", kind), bytes.len() % 8 == 0, || json!({"x": case(), "call": "serialize"}), || json!({"observed": bytes.len()}));

    // Load: consumes exactly the bytes written, equals the original, re-serializes identically.
    let loaded = guard(|| {
        let mut r = CountingReader::new(&bytes);
        let y = x.load_same(&mut r);
        (y, r.pos)
    });
    let y = match loaded {
        Ok((Ok(y), pos)) => {
            ctx.expect(|| format!("{}.load(consumed)", kind), Ok(pos), &bytes.len(), || json!({"x": case(), "call": "load: bytes consumed"}));
            y
        }
        Ok((Err(e), _)) => {
            ctx.require(|| format!("{}.load", kind), false, || json!({"x": case(), "call": "load"}), || json!({"observed": format!("Err({})", e)}));
            return;
        }
        Err(msg) => {
            ctx.panic_violation(&format!("{}.load", kind), &msg, None, || json!({"x": case(), "call": "load"}));
            return;
        }
    };
    ctx.require(|| format!("{}.load(equal)", kind), y.eq_dyn(x.as_ref()), || json!({"x": case(), "call": "load == original"}), || json!({"observed": y.debug(), "expected": x.debug()}));
    ctx.expect(|| format!("{}.load(reserialize)", kind), guard(|| y.bytes() == bytes), &true, || json!({"x": case(), "call": "serialize(load(bytes)) == bytes"}));
    check_answers(ctx, d, y.as_ref(), &case);

    // Environment answers: short reads, short writes.
    for chunk in [1usize, 3, 7, 8, 9] {
        let got = guard(|| {
            let mut r = ShortReader::new(&bytes, chunk);
            let y = x.load_same(&mut r);
            match y {
                Ok(y) => Ok((y.eq_dyn(x.as_ref()), r.pos)),
                Err(e) => Err(e.to_string()),
            }
        });
        ctx.expect(|| format!("{}.load(short reads)", kind), got, &Ok((true, bytes.len())), || json!({"x": case(), "call": format!("load through a reader returning at most {} bytes per read", chunk)}));
    }
    for chunk in [1usize, 3, 7] {
        let got = guard(|| {
            let mut w = ShortWriter::new(chunk);
            let r = x.write_to(&mut w);
            (r.is_ok(), w.data == bytes)
        });
        ctx.expect(|| format!("{}.serialize(short writes)", kind), got, &(true, true), || json!({"x": case(), "call": format!("serialize into a sink accepting at most {} bytes per write", chunk)}));
    }
}

fn check_concat(ctx: &mut Ctx, descs: &[Desc], items: Option<&[(Box<dyn Ser>, Vec<u8>)]>) {
    let case = || json!({"Concat": descs});
    ctx.announce(case);
    let built: Vec<(Box<dyn Ser>, Vec<u8>)>;
    let items: Vec<&(Box<dyn Ser>, Vec<u8>)> = match items {
        Some(i) => i.iter().collect(),
        None => {
            built = descs.iter().map(|d| { let x = catalogue::build(d); let b = x.bytes(); (x, b) }).collect();
            built.iter().collect()
        }
    };
    let mut stream = Vec::new();
    for (_, b) in &items {
        stream.extend_from_slice(b);
    }
    let got = guard(|| {
        let mut r = CountingReader::new(&stream);
        for (k, (x, b)) in items.iter().enumerate() {
            let before = r.pos;
            match x.load_same(&mut r) {
                Ok(y) => {
                    if !y.eq_dyn(x.as_ref()) {
                        return Some(format!("structure {} loaded from the stream differs from the original", k));
                    }
                    if r.pos - before != b.len() {
                        return Some(format!("structure {} consumed {} bytes, wrote {}", k, r.pos - before, b.len()));
                    }
                }
                Err(e) => return Some(format!("structure {} failed to load: {}", k, e)),
            }
        }
        if r.pos != stream.len() {
            return Some(format!("reader ended at {}, stream has {} bytes", r.pos, stream.len()));
        }
        None
    });
    ctx.expect(|| "concatenation.load_in_sequence".to_string(), got, &None, case);
}

fn small_scope(ctx: &mut Ctx) {
    let n = ctx.tier.pick(12, 18);
    for len in 0..=n {
        for word in 0..(1u64 << len) {
            let bits = BitsDesc::Word { len, word };
            for d in [Desc::Bv { bits: bits.clone(), supports: 0 }, Desc::Bv { bits: bits.clone(), supports: 7 }, Desc::Sparse(bits.clone()), Desc::Rl(bits.clone())] {
                if ctx.mine(&d) {
                    ctx.count("small_scope_structures", 1);
                    check_single(ctx, &d);
                }
            }
        }
    }
}

/// Every wavelet matrix (and core) over small alphabets: levels whose support structures differ in size.
fn small_wm_scope(ctx: &mut Ctx) {
    let scopes: Vec<(usize, usize)> = if ctx.tier.is_thorough() { vec![(1, 9), (2, 6), (3, 4), (4, 3)] } else { vec![(1, 6), (2, 5), (3, 3)] };
    for &(w, l) in &scopes {
        vcore::enumr::words(1 << w, l, |word| {
            let values: Vec<u64> = word.iter().map(|&x| x as u64).collect();
            for d in [Desc::Wm(values.clone()), Desc::WmCore(values.clone())] {
                if ctx.mine(&d) {
                    ctx.count("small_scope_wavelet_matrices", 1);
                    check_single(ctx, &d);
                }
            }
        });
    }
}

fn size_by_params(ctx: &mut Ctx) {
    let caps = [0usize, 1, 2, 63, 64, 65, 127, 128, 129, 1000, 4096];
    for &c in &caps {
        let case = || json!({"RawSizeByParams": c});
        let want = guard(|| RawVector::with_len(c, false).size_in_elements());
        let got = guard(|| RawVector::size_by_params(c));
        ctx.expect(|| "RawVector.size_by_params".to_string(), got, &want.unwrap_or(usize::MAX), case);
    }
    for w in 1..=64usize {
        for &c in &[0usize, 1, 2, 3, 63, 64, 65, 100] {
            let case = || json!({"IntSizeByParams": [c, w]});
            let want = guard(|| IntVector::with_len(c, w, 0).unwrap().size_in_elements());
            let got = guard(|| IntVector::size_by_params(c, w));
            ctx.expect(|| "IntVector.size_by_params".to_string(), got, &want.unwrap_or(usize::MAX), case);
        }
    }
}

/// Round trip of one large value: exact sizes, exact consumption (with a sentinel behind it), equality.
fn check_large_value<T: SdsSerialize + PartialEq + std::fmt::Debug>(ctx: &mut Ctx, kind: &str, n: usize, x: &T) {
    let c = Case::Large(kind.to_string(), n);
    let case = || json!({"x": c, "call": "serialize; load"});
    let mut bytes: Vec<u8> = Vec::new();
    let w = guard(|| x.serialize(&mut bytes).is_ok());
    ctx.expect(|| format!("{}(large).serialize", kind), w, &true, case);
    ctx.expect(|| format!("{}(large).size_in_elements/size_in_bytes", kind), guard(|| (x.size_in_elements() * 8, x.size_in_bytes())), &(bytes.len(), bytes.len()), case);
    let own = bytes.len();
    bytes.extend_from_slice(&0x5E47u64.to_le_bytes());
    let got = guard(|| {
        let mut r = std::io::Cursor::new(&bytes[..]);
        let y = T::load(&mut r).map_err(|e| e.to_string())?;
        Ok::<(bool, u64), String>((y == *x, r.position()))
    });
    ctx.expect(|| format!("{}(large).load[equal, exact consumption]", kind), got, &Ok((true, own as u64)), case);
    // ... and through a reader that hands out 4095 bytes at a time
    let got = guard(|| {
        let mut r = ShortReader::new(&bytes[..], 4095);
        let y = T::load(&mut r).map_err(|e| e.to_string())?;
        let next = u64::load(&mut r).map_err(|e| e.to_string())?;
        Ok::<(bool, u64), String>((y == *x, next))
    });
    ctx.expect(|| format!("{}(large).load[4095-byte reads]", kind), got, &Ok((true, 0x5E47)), case);
}

fn check_large(ctx: &mut Ctx, kind: &str, n: usize) {
    let c = Case::Large(kind.to_string(), n);
    ctx.announce(|| serde_json::to_value(&c).unwrap());
    ctx.nontrivial(&c);
    ctx.sample_tagged("large", || serde_json::to_value(&c).unwrap());
    let val = |i: usize| (i as u64).wrapping_mul(0x9E37_79B9_7F4A_7C15) ^ 0x0123_4567_89AB_CDEF;
    match kind {
        "VecU64" => check_large_value(ctx, kind, n, &(0..n).map(val).collect::<Vec<u64>>()),
        "VecPair" => check_large_value(ctx, kind, n, &(0..n).map(|i| (val(i), i as u64)).collect::<Vec<(u64, u64)>>()),
        "Bytes" => check_large_value(ctx, kind, n, &(0..n).map(|i| val(i) as u8).collect::<Vec<u8>>()),
        "IntVector37" => {
            let mut v = IntVector::with_capacity(n, 37).unwrap();
            for i in 0..n {
                simple_sds::ops::Push::push(&mut v, val(i));
            }
            check_large_value(ctx, kind, n, &v)
        }
        "BitVector" => {
            let mut raw = RawVector::with_capacity(n);
            for i in 0..n / 64 {
                unsafe { simple_sds::raw_vector::PushRaw::push_int(&mut raw, val(i), 64) };
            }
            for i in 0..n % 64 {
                simple_sds::raw_vector::PushRaw::push_bit(&mut raw, i % 3 == 0);
            }
            let mut bv = BitVector::from(raw);
            enable_all(&mut bv);
            check_large_value(ctx, kind, n, &bv)
        }
        // Values reached by a conversion: a plain bitvector made from a multiset sparse vector (duplicates,
        // also more values than positions) is a BitVector like any other. `n` indexes `multisets()`; odd
        // numbers enable the support structures first.
        "BitVector(From multiset)" => {
            let (universe, values) = multisets().swap_remove(n / 2);
            let ms = catalogue::sparse_multiset(universe, &values);
            let mut bv = BitVector::from(ms);
            if n % 2 == 1 {
                enable_all(&mut bv);
            }
            check_large_value(ctx, kind, n, &bv)
        }
        _ => panic!("replay: not a C06 case"),
    }
}

/// Every non-decreasing list of up to 2u + 1 values below u, for universes u = 1..=3.
fn multisets() -> Vec<(usize, Vec<usize>)> {
    fn rec(u: usize, max_len: usize, cur: &mut Vec<usize>, out: &mut Vec<(usize, Vec<usize>)>) {
        out.push((u, cur.clone()));
        if cur.len() == max_len {
            return;
        }
        for v in cur.last().copied().unwrap_or(0)..u {
            cur.push(v);
            rec(u, max_len, cur, out);
            cur.pop();
        }
    }
    let mut out = Vec::new();
    for u in 1..=3 {
        rec(u, 2 * u + 1, &mut Vec::new(), &mut out);
    }
    out
}

/// Sizes around the piece sizes a loader might use (1 MiB, 2^20 items, 8 MiB).
fn large_values() -> Vec<(&'static str, usize)> {
    vec![("VecU64", (1 << 17) + 3), ("VecU64", (1 << 20) + 3), ("VecPair", (1 << 16) + 1), ("VecPair", (1 << 20) + 1), ("Bytes", (1 << 20) + 5), ("Bytes", (1 << 23) + 1), ("IntVector37", 1 << 21), ("BitVector", (1 << 26) + 70)]
}

fn explore(ctx: &mut Ctx) {
    vcore::model::self_check().expect("reference model self-check failed");
    let thorough = ctx.tier.is_thorough();
    let cat = catalogue::catalogue(thorough, ctx.seed_pattern());
    ctx.count_max("catalogue_max_size", cat.len() as u64);
    for d in &cat {
        if ctx.mine(d) {
            ctx.count("catalogue_values", 1);
            check_single(ctx, d);
        }
    }
    small_scope(ctx);
    small_wm_scope(ctx);
    if ctx.mine_index(0) {
        size_by_params(ctx);
    }
    for n in 0..2 * multisets().len() {
        if ctx.mine_index(5000 + n as u64) {
            ctx.count("converted_multiset_values", 1);
            check_large(ctx, "BitVector(From multiset)", n);
        }
    }
    for (k, (kind, n)) in large_values().into_iter().enumerate() {
        if ctx.mine_index(1000 + k as u64) {
            ctx.count("large_values", 1);
            check_large(ctx, kind, n);
        }
    }

    // Concatenations: every ordered pair; thorough: every ordered triple over a 24-element sub-catalogue.
    let items: Vec<(Box<dyn Ser>, Vec<u8>)> = cat.iter().map(|d| { let x = catalogue::build(d); let b = x.bytes(); (x, b) }).collect();
    let mut idx = 0u64;
    for i in 0..cat.len() {
        for j in 0..cat.len() {
            idx += 1;
            if ctx.mine_index(idx) {
                ctx.count("pairs", 1);
                let pair = [cat[i].clone(), cat[j].clone()];
                let sub: Vec<(Box<dyn Ser>, Vec<u8>)> = vec![(catalogue::build(&cat[i]), items[i].1.clone()), (catalogue::build(&cat[j]), items[j].1.clone())];
                let _ = &sub;
                check_concat_pre(ctx, &pair, &[&items[i], &items[j]]);
            }
        }
    }
    if thorough {
        let step = (cat.len() / 36).max(1);
        let sub: Vec<usize> = (0..cat.len()).step_by(step).take(36).collect();
        for &i in &sub {
            for &j in &sub {
                for &k in &sub {
                    idx += 1;
                    if ctx.mine_index(idx) {
                        ctx.count("triples", 1);
                        let t = [cat[i].clone(), cat[j].clone(), cat[k].clone()];
                        check_concat_pre(ctx, &t, &[&items[i], &items[j], &items[k]]);
                    }
                }
            }
        }
    }
}

fn check_concat_pre(ctx: &mut Ctx, descs: &[Desc], items: &[&(Box<dyn Ser>, Vec<u8>)]) {
    let case = || json!({"Concat": descs});
    ctx.announce(case);
    ctx.sample_tagged("concatenation", case);
    ctx.nontrivial(&("concat", descs));
    let mut stream = Vec::new();
    for (_, b) in items {
        stream.extend_from_slice(b);
    }
    let got = guard(|| {
        let mut r = CountingReader::new(&stream);
        for (k, (x, b)) in items.iter().enumerate() {
            let before = r.pos;
            match x.load_same(&mut r) {
                Ok(y) => {
                    if !y.eq_dyn(x.as_ref()) {
                        return Some(format!("structure {} loaded from the stream differs from the original", k));
                    }
                    if r.pos - before != b.len() {
                        return Some(format!("structure {} consumed {} bytes, wrote {}", k, r.pos - before, b.len()));
                    }
                }
                Err(e) => return Some(format!("structure {} failed to load: {}", k, e)),
            }
        }
        if r.pos != stream.len() {
            return Some(format!("reader ended at {}, stream has {} bytes", r.pos, stream.len()));
        }
        None
    });
    ctx.expect(|| "concatenation.load_in_sequence".to_string(), got, &None, case);
}

fn replay(ctx: &mut Ctx, v: &Value) {
    // Violations carry either {"x": <case>, "call": ..} / {"bv": <case>, ..} or the case itself.
    let inner = if v.get("x").is_some() { &v["x"] } else if v.get("bv").is_some() { &v["bv"] } else { v };
    let c: Case = serde_json::from_value(inner.clone()).expect("replay: not a C06 case");
    match c {
        Case::Single(d) => check_single(ctx, &d),
        Case::Concat(ds) => check_concat(ctx, &ds, None),
        Case::RawSizeByParams(_) | Case::IntSizeByParams(..) => size_by_params(ctx),
        Case::Large(kind, n) => check_large(ctx, &kind, n),
    }
}

fn main() {
    let _ = SdsSerialize::size_in_elements(&0u64);
    vcore::run_driver("C06", explore, replay, hook_hits);
}
