//! C11 — conversions between bitvector types preserve the bits and are canonical.
//! E-input: every small bit sequence (plus multi-block representatives) through every conversion
//! chain of length 1..3 (From and copy_bit_vec), and every builder call decomposition of small run lists.

use drivers::catalogue::BitsDesc;
use drivers::*;
use serde::{Deserialize, Serialize};
use simple_sds::bit_vector::BitVector;
use simple_sds::ops::{BitVec, Select};
use simple_sds::rl_vector::{RLBuilder, RLVector};
use simple_sds::sparse_vector::SparseVector;
use vcore::enumr::{self, Letter};

#[derive(Serialize, Deserialize, Clone, Copy, Debug, Hash, PartialEq, Eq)]
enum T {
    Bv,
    Sp,
    Rl,
}

#[derive(Serialize, Deserialize, Clone, Debug, Hash)]
enum Case {
    /// `chain[0]` is the type the bits are first built as; each later entry is a conversion.
    Chain { bits: BitsDesc, chain: Vec<T>, by_from: bool },
    /// Run list (gap, len) pairs + tail; each run is set in the given pieces; `set_len_mode`: 0 none,
    /// 1 set_len(current length) before every run, 2 set_len(next start) before every run, 3 set_len(current length) before every piece,
    /// 4 two refused try_set calls before every piece.
    Decomp { pairs: Vec<(usize, usize)>, tail: usize, pieces: Vec<Vec<usize>>, set_len_mode: u8 },
}

enum Any {
    Bv(BitVector),
    Sp(SparseVector),
    Rl(RLVector),
}

fn build(m: &Bits, t: T) -> Any {
    match t {
        T::Bv => Any::Bv(BitVector::from(raw_from_model(m))),
        T::Sp => Any::Sp(sparse_from_model(m).expect("harness: sparse builder refused a valid set")),
        T::Rl => Any::Rl(rl_from_model(m).expect("harness: rl builder refused a valid run list")),
    }
}

fn convert(x: Any, t: T, by_from: bool) -> Any {
    if by_from {
        match (x, t) {
            (Any::Bv(b), T::Sp) => Any::Sp(SparseVector::from(b)),
            (Any::Bv(b), T::Rl) => Any::Rl(RLVector::from(b)),
            (Any::Sp(s), T::Bv) => Any::Bv(BitVector::from(s)),
            (Any::Sp(s), T::Rl) => Any::Rl(RLVector::from(s)),
            (Any::Rl(r), T::Bv) => Any::Bv(BitVector::from(r)),
            (Any::Rl(r), T::Sp) => Any::Sp(SparseVector::from(r)),
            _ => unreachable!("From between equal types is not part of the chains"),
        }
    } else {
        match (&x, t) {
            (Any::Bv(b), T::Bv) => Any::Bv(BitVector::copy_bit_vec(b)),
            (Any::Bv(b), T::Sp) => Any::Sp(SparseVector::copy_bit_vec(b)),
            (Any::Bv(b), T::Rl) => Any::Rl(RLVector::copy_bit_vec(b)),
            (Any::Sp(s), T::Bv) => Any::Bv(BitVector::copy_bit_vec(s)),
            (Any::Sp(s), T::Sp) => Any::Sp(SparseVector::copy_bit_vec(s)),
            (Any::Sp(s), T::Rl) => Any::Rl(RLVector::copy_bit_vec(s)),
            (Any::Rl(r), T::Bv) => Any::Bv(BitVector::copy_bit_vec(r)),
            (Any::Rl(r), T::Sp) => Any::Sp(SparseVector::copy_bit_vec(r)),
            (Any::Rl(r), T::Rl) => Any::Rl(RLVector::copy_bit_vec(r)),
        }
    }
}

/// None if `x` is canonical for the model: right bits, equal to the builder's result, identical bytes.
fn canonical(x: &Any, m: &Bits) -> Option<String> {
    let want_pos: Vec<usize> = m.positions().into_iter().map(|p| p as usize).collect();
    let (len, ones, pos, eq, same_bytes) = match x {
        Any::Bv(b) => {
            let r = BitVector::from(raw_from_model(m));
            (b.len(), b.count_ones(), b.one_iter().map(|(_, p)| p).collect::<Vec<_>>(), *b == r, to_bytes(b) == to_bytes(&r))
        }
        Any::Sp(s) => {
            let r = sparse_from_model(m).unwrap();
            (s.len(), s.count_ones(), s.one_iter().map(|(_, p)| p).collect::<Vec<_>>(), *s == r, to_bytes(s) == to_bytes(&r))
        }
        Any::Rl(l) => {
            let r = rl_from_model(m).unwrap();
            (l.len(), l.count_ones(), l.one_iter().map(|(_, p)| p).collect::<Vec<_>>(), *l == r, to_bytes(l) == to_bytes(&r))
        }
    };
    if len as u128 != m.len {
        return Some(format!("length {} instead of {}", len, m.len));
    }
    if ones != want_pos.len() || pos != want_pos {
        return Some(format!("set positions {:?} instead of {:?}", &pos[..pos.len().min(20)], &want_pos[..want_pos.len().min(20)]));
    }
    if !eq {
        return Some("not equal to the structure the target type's own builder produces from the same bits".to_string());
    }
    if !same_bytes {
        return Some("serializes differently from the structure the target type's own builder produces".to_string());
    }
    None
}

/// "from a raw vector, from an iterator": both give the canonical BitVector.
fn check_bv_routes(ctx: &mut Ctx, bits: &BitsDesc) {
    use std::iter::FromIterator;
    let m = bits.model();
    let c = Case::Chain { bits: bits.clone(), chain: vec![T::Bv, T::Bv], by_from: true };
    let case = || serde_json::to_value(&c).unwrap();
    let got = guard(|| canonical(&Any::Bv(BitVector::from_iter(m.to_bools())), &m));
    ctx.expect(|| "convert[FromIterator<bool> -> BitVector]".to_string(), got, &None, case);
    // "from an iterator" for the sparse type: `try_from_iter` sizes the universe to the last value plus one, so
    // the route exists for the empty sequence and for sequences that end with a set bit.
    let ends_set = m.runs.last().map_or(m.len == 0, |&(s, l)| s + l == m.len);
    if ends_set && m.ones() <= 100_000 {
        let pos: Vec<usize> = m.positions().into_iter().map(|p| p as usize).collect();
        let got = guard(|| match SparseVector::try_from_iter(pos.iter().copied()) {
            Ok(sv) => canonical(&Any::Sp(sv), &m),
            Err(e) => Some(format!("try_from_iter refused the positions of a bit sequence: {}", e)),
        });
        ctx.expect(|| "convert[try_from_iter -> SparseVector]".to_string(), got, &None, case);
    }
    // Uniform vectors through the filling constructor of the raw vector, and on to the other two types.
    if m.len > 0 && (m.ones() == 0 || m.zeros() == 0) {
        let fill = m.zeros() == 0;
        let got = guard(|| {
            let bv = BitVector::from(simple_sds::raw_vector::RawVector::with_len(m.len as usize, fill));
            canonical(&Any::Bv(bv.clone()), &m).or_else(|| canonical(&Any::Sp(SparseVector::from(bv.clone())), &m)).or_else(|| canonical(&Any::Rl(RLVector::from(bv)), &m))
        });
        ctx.expect(|| format!("convert[RawVector::with_len(len, {}) -> BitVector -> Sparse / RL]", fill), got, &None, case);
    }
}

fn check_chain(ctx: &mut Ctx, bits: &BitsDesc, chain: &[T], by_from: bool) {
    if by_from && chain == [T::Bv, T::Bv] {
        return check_bv_routes(ctx, bits);
    }
    let c = Case::Chain { bits: bits.clone(), chain: chain.to_vec(), by_from };
    let case = || serde_json::to_value(&c).unwrap();
    ctx.announce(case);
    let m = bits.model();
    let got = guard(|| {
        let mut x = build(&m, chain[0]);
        for &t in &chain[1..] {
            x = convert(x, t, by_from);
        }
        canonical(&x, &m)
    });
    let empty_class = if m.ones() == 0 && m.len > 0 { ",all-zero" } else { "" };
    ctx.expect(|| format!("convert[{:?}->{:?},{}{}]", chain[chain.len() - 2], chain[chain.len() - 1], if by_from { "From" } else { "copy_bit_vec" }, empty_class), got, &None, case);
}

fn chains(by_from: bool) -> Vec<Vec<T>> {
    let ts = [T::Bv, T::Sp, T::Rl];
    let mut out = Vec::new();
    for len in 2..=4usize {
        enumr::words_exact(3, len, &mut |w| {
            let ch: Vec<T> = w.iter().map(|&i| ts[i]).collect();
            if !by_from || ch.windows(2).all(|p| p[0] != p[1]) {
                out.push(ch);
            }
        });
    }
    out
}

fn check_decomp(ctx: &mut Ctx, pairs: &[(usize, usize)], tail: usize, pieces: &[Vec<usize>], set_len_mode: u8) {
    let c = Case::Decomp { pairs: pairs.to_vec(), tail, pieces: pieces.to_vec(), set_len_mode };
    let case = || serde_json::to_value(&c).unwrap();
    ctx.announce(case);
    let mut runs: Vec<(u128, u128)> = Vec::new();
    let mut at = 0u128;
    for &(g, l) in pairs {
        at += g as u128;
        runs.push((at, l as u128));
        at += l as u128;
    }
    let m = Bits::from_runs(at + tail as u128, &runs);
    let got = guard(|| {
        let mut b = RLBuilder::new();
        let mut pos = 0usize;
        for (k, &(g, _)) in pairs.iter().enumerate() {
            let start = pos + g;
            match set_len_mode {
                1 => b.set_len(b.len()),
                2 => b.set_len(start),
                _ => {}
            }
            let mut p = start;
            for &piece in &pieces[k] {
                if set_len_mode == 3 {
                    // a no-op by documentation, also in the middle of a run that is still being extended
                    b.set_len(b.len());
                }
                if set_len_mode == 4 {
                    // refused calls (a run that overflows behind a gap; a run before the current length) leave
                    // no trace, also in the middle of a run that is still being extended
                    if b.try_set(b.len() + 5, usize::MAX).is_ok() {
                        return Some(format!("try_set({}, usize::MAX) accepted", b.len() + 5));
                    }
                    if b.len() > 0 && b.try_set(0, 1).is_ok() {
                        return Some("try_set(0, 1) accepted on a non-empty builder".to_string());
                    }
                }
                if let Err(e) = b.try_set(p, piece) {
                    return Some(format!("try_set({}, {}) refused: {}", p, piece, e));
                }
                p += piece;
            }
            pos = p;
        }
        b.set_len(m.len as usize);
        canonical(&Any::Rl(RLVector::from(b)), &m)
    });
    ctx.expect(|| format!("RLBuilder.decomposition[set_len_mode={}]", set_len_mode), got, &None, case);
}

fn explore(ctx: &mut Ctx) {
    vcore::model::self_check().expect("reference model self-check failed");
    let thorough = ctx.tier.is_thorough();
    let from_chains = chains(true);
    let copy_chains = chains(false);
    ctx.count_max("max_from_chains", from_chains.len() as u64);
    ctx.count_max("max_copy_chains", copy_chains.len() as u64);
    let n = ctx.tier.pick(12, 18);
    let mut all_bits: Vec<BitsDesc> = Vec::new();
    for len in 0..=n {
        for word in 0..(1u64 << len) {
            all_bits.push(BitsDesc::Word { len, word });
        }
    }
    {
        use Letter::*;
        // all-zero vectors at word boundaries, multi-word, multi-block and long-superblock representatives
        for l in [1u64, 63, 64, 65, 100, 1000] {
            all_bits.push(BitsDesc::Letters(vec![Zeros(l)]));
            all_bits.push(BitsDesc::Letters(vec![Ones(l)]));
        }
        all_bits.push(BitsDesc::Letters(vec![Every(3, 200), Zeros(13)]));
        all_bits.push(BitsDesc::Letters(vec![Zeros(511), Ones(2)]));
        all_bits.push(BitsDesc::Letters(vec![Every(7, 700), Ones(70)]));
        all_bits.push(BitsDesc::Letters(vec![Every(3, 5000), Ones(4097)]));
        all_bits.push(BitsDesc::Letters(vec![Every(25000, 5), Zeros(1)]));
    }
    for bits in &all_bits {
        if !ctx.mine(bits) {
            continue;
        }
        ctx.sample_tagged("chains", || json!({"bits": bits}));
        let m = bits.model();
        if m.ones() > 0 && m.zeros() > 0 {
            ctx.nontrivial(bits);
        }
        let big = m.len > 64;
        check_bv_routes(ctx, bits);
        for ch in &from_chains {
            if big && !thorough && ch.len() > 3 {
                continue;
            }
            ctx.count("chains_checked", 1);
            check_chain(ctx, bits, ch, true);
        }
        for ch in &copy_chains {
            if big && ch.len() > 3 {
                continue;
            }
            ctx.count("chains_checked", 1);
            check_chain(ctx, bits, ch, false);
        }
    }

    // Huge universes that only the sparse and the run-length vector can represent: gaps of up to 2^60
    // (long run-length codes, wide sparse low parts); chains over {SparseVector, RLVector}.
    let mut huge: Vec<BitsDesc> = vec![
        BitsDesc::Runs { pairs: vec![((1u64 << 52) + 12345, 2), (3, 1)], tail: 5 },
        BitsDesc::Runs { pairs: vec![(0, 1), (1 << 48, 1), ((1 << 48) - 1, 2)], tail: 1 << 47 },
        BitsDesc::Runs { pairs: vec![(1 << 60, 3), (1 << 59, 1), (1, 1)], tail: 1 << 61 },
        BitsDesc::Runs { pairs: vec![(7, 1), (1 << 62, 2)], tail: (1 << 62) - 20 },
        // total length exactly usize::MAX, the last run ends at the last position
        BitsDesc::Runs { pairs: vec![(5, 1), (u64::MAX - 9, 3)], tail: 0 },
        BitsDesc::Runs { pairs: vec![(0, 2), (u64::MAX - 3, 1)], tail: 0 },
    ];
    // k isolated bits (every fill level of the first run-length block), then a bit beyond 2^63 and two more:
    // the widest gap code arrives at every position inside a block.
    for k in 0..=34u64 {
        let mut pairs: Vec<(u64, u64)> = std::iter::repeat((1u64, 1u64)).take(k as usize).collect();
        pairs.push(((1 << 63) + 100, 1));
        pairs.push((5, 1));
        pairs.push((1 << 34, 2));
        huge.push(BitsDesc::Runs { pairs, tail: 9 });
    }
    for bits in &huge {
        if !ctx.mine(bits) {
            continue;
        }
        ctx.nontrivial(bits);
        for by_from in [true, false] {
            for ch in if by_from { &from_chains } else { &copy_chains } {
                if ch.iter().all(|&t| t != T::Bv) {
                    ctx.count("huge_universe_chains_checked", 1);
                    check_chain(ctx, bits, ch, by_from);
                }
            }
        }
    }

    // Builder decompositions of run lists with <= 3 runs of length <= 4.
    let max_len = ctx.tier.pick(5, 6);
    let gaps = [0usize, 1, 2];
    let mut lists: Vec<Vec<(usize, usize)>> = vec![vec![]];
    for nruns in 1..=3usize {
        enumr::words_exact(gaps.len() * max_len, nruns, &mut |w| {
            let pairs: Vec<(usize, usize)> = w.iter().map(|&x| (gaps[x / max_len], x % max_len + 1)).collect();
            // gap 0 only for the first run: later runs must be separated (maximal runs)
            if pairs.iter().skip(1).all(|p| p.0 > 0) {
                lists.push(pairs);
            }
        });
    }
    let mut job = 0u64;
    for pairs in &lists {
        // all combinations of compositions, one per run
        let mut per_run: Vec<Vec<Vec<usize>>> = Vec::new();
        for &(_, l) in pairs {
            let mut comps: Vec<Vec<usize>> = Vec::new();
            enumr::compositions(l, &mut |c| comps.push(c.to_vec()));
            per_run.push(comps);
        }
        let mut idx = vec![0usize; pairs.len()];
        loop {
            let pieces: Vec<Vec<usize>> = idx.iter().enumerate().map(|(k, &i)| per_run[k][i].clone()).collect();
            for tail in [0usize, 2] {
                for mode in 0..5u8 {
                    job += 1;
                    if ctx.mine_index(job) {
                        ctx.count("decompositions", 1);
                        ctx.nontrivial(&(pairs, &pieces, tail, mode));
                        if job % 997 == 1 {
                            ctx.sample_tagged("decompositions", || json!({"pairs": pairs, "pieces": pieces, "tail": tail, "set_len_mode": mode}));
                        }
                        check_decomp(ctx, pairs, tail, &pieces, mode);
                    }
                }
            }
            // next combination
            let mut k = 0;
            loop {
                if k == idx.len() {
                    break;
                }
                idx[k] += 1;
                if idx[k] < per_run[k].len() {
                    break;
                }
                idx[k] = 0;
                k += 1;
            }
            if k == idx.len() {
                break;
            }
        }
    }
}

fn replay(ctx: &mut Ctx, v: &Value) {
    let c: Case = serde_json::from_value(v.clone()).expect("replay: not a C11 case");
    match c {
        Case::Chain { bits, chain, by_from } => check_chain(ctx, &bits, &chain, by_from),
        Case::Decomp { pairs, tail, pieces, set_len_mode } => check_decomp(ctx, &pairs, tail, &pieces, set_len_mode),
    }
}

fn main() {
    vcore::run_driver("C11", explore, replay, hook_hits);
}
