//! C01 — plain bitvector answers every rank/select/pred/succ query exactly.
//! E-input: small scope (all bit strings), regime words over a boundary alphabet, length sweep.

use drivers::*;
use serde::{Deserialize, Serialize};
use simple_sds::bit_vector::select_support::SelectSupport;
use simple_sds::bit_vector::{BitVector, Complement, Identity};
use simple_sds::ops::{BitVec, PredSucc, Rank, Select, SelectZero};
use simple_sds::rl_vector::RLVector;
use simple_sds::sparse_vector::SparseVector;
use std::iter::FromIterator;
use vcore::enumr::{self, Letter};

#[derive(Serialize, Deserialize, Clone, Debug, Hash)]
enum Case {
    /// Bit i of the sequence = bit i of `word`, for i < len.
    Small { len: usize, word: u64 },
    Word { letters: Vec<Letter> },
    Sweep { len: usize, fill: Fill },
}

#[derive(Serialize, Deserialize, Clone, Copy, Debug, Hash)]
enum Fill {
    Zeros,
    Ones,
    Alternating,
    SingleFirst,
    SingleMiddle,
    SingleLast,
}

fn model_of(c: &Case) -> Bits {
    match c {
        Case::Small { len, word } => Bits::from_word(*word, *len),
        Case::Word { letters } => {
            let (len, runs) = enumr::word_runs(letters);
            Bits::from_runs(len, &runs)
        }
        Case::Sweep { len, fill } => {
            let n = *len as u128;
            match fill {
                Fill::Zeros => Bits::from_runs(n, &[]),
                Fill::Ones => Bits::from_runs(n, &[(0, n)]),
                Fill::Alternating => {
                    let runs: Vec<(u128, u128)> = (0..n).filter(|i| i % 2 == 1).map(|i| (i, 1)).collect();
                    Bits::from_runs(n, &runs)
                }
                Fill::SingleFirst => Bits::from_runs(n, &if n > 0 { vec![(0, 1)] } else { vec![] }),
                Fill::SingleMiddle => Bits::from_runs(n, &if n > 0 { vec![(n / 2, 1)] } else { vec![] }),
                Fill::SingleLast => Bits::from_runs(n, &if n > 0 { vec![(n - 1, 1)] } else { vec![] }),
            }
        }
    }
}

fn alphabet() -> Vec<Letter> {
    use Letter::*;
    vec![
        Ones(1), Zeros(1), Ones(63), Zeros(63), Ones(64), Zeros(511), Ones(4095), Ones(4096), Ones(4097), Zeros(4096),
        Every(64, 70), Every(3, 5000), Every(40, 4096), Every(30, 4097), Ones(8192), Every(25000, 5), Zeros(90000), Zeros(140000),
        EveryZero(25000, 5), EveryZero(3, 5000), Ones(90000),
    ]
}

// Sub-alphabet for depth 4: the letters that decide the long/short regime and block boundaries.
fn sub_alphabet() -> Vec<Letter> {
    use Letter::*;
    vec![Ones(1), Ones(4096), Every(3, 5000), Every(30, 4097), Every(25000, 5), Zeros(90000), EveryZero(25000, 5), Ones(90000)]
}

fn check_case(ctx: &mut Ctx, c: &Case) {
    let m = model_of(c);
    let case = || serde_json::to_value(c).unwrap();
    ctx.announce(case);
    ctx.sample_tagged(match c { Case::Small { .. } => "small-scope", Case::Word { .. } => "regime-word", Case::Sweep { .. } => "length-sweep" }, case);
    let len = m.len as usize;
    let small = matches!(c, Case::Small { .. });

    // Route 1: from a raw vector.
    let bv = match guard(|| bv_from_model(&m)) {
        Ok(bv) => bv,
        Err(msg) => {
            ctx.panic_violation("BitVector.construct(raw)", &msg, None, || json!({"bv": case(), "call": "From<RawVector> + enable_*"}));
            return;
        }
    };

    // Regime evidence through the public support-structure API.
    if !small {
        let s1 = SelectSupport::<Identity>::new(&bv);
        let s0 = SelectSupport::<Complement>::new(&bv);
        let (l1, h1, l0, h0) = (s1.long_superblocks(), s1.short_superblocks(), s0.long_superblocks(), s0.short_superblocks());
        if l1 > 0 { ctx.count("vectors_with_long_superblock(ones)", 1); }
        if h1 > 0 { ctx.count("vectors_with_short_superblock(ones)", 1); }
        if l1 > 0 && h1 > 0 { ctx.count("vectors_with_long_and_short(ones)", 1); }
        if l1 > 1 { ctx.count("vectors_with_several_long(ones)", 1); }
        if l0 > 0 { ctx.count("vectors_with_long_superblock(zeros)", 1); }
        if h0 > 0 { ctx.count("vectors_with_short_superblock(zeros)", 1); }
        if l0 > 0 && h0 > 0 { ctx.count("vectors_with_long_and_short(zeros)", 1); }
        if l0 > 1 { ctx.count("vectors_with_several_long(zeros)", 1); }
        if s1.superblocks() > 1 { ctx.count("vectors_with_several_superblocks(ones)", 1); }
        if len > 512 { ctx.count("vectors_with_several_rank_blocks", 1); }
        ctx.count_max("max_len", len as u64);
    }
    if m.ones() > 0 && m.zeros() > 0 {
        ctx.nontrivial(c);
    }

    // Queries.
    let q = match c {
        Case::Small { .. } => Queries::exhaustive(&m),
        Case::Sweep { .. } => Queries::exhaustive(&m),
        Case::Word { .. } => {
            let cap = ctx.tier.pick(150, 600);
            let mut q = Queries::edges(&m, &[64, 512], &[64, 4096], cap, true);
            // every rank for select / select_zero
            if m.ones() <= 400_000 {
                q.ranks = (0..=m.ones() as usize + 1).chain(boundary_args(m.ones() as usize)).collect();
                q.ranks.sort_unstable();
                q.ranks.dedup();
            }
            if m.zeros() <= 400_000 {
                q.zero_ranks = (0..=m.zeros() as usize + 1).chain(boundary_args(m.zeros() as usize)).collect();
                q.zero_ranks.sort_unstable();
                q.zero_ranks.dedup();
            }
            q
        }
    };
    check_bitvec!(ctx, &bv, &m, "BitVector", &q, case);

    // Other public routes must give an equal vector (equal fields => equal answers) and equal bytes.
    let reference = to_bytes(&bv);
    let mut routes: Vec<(&str, Result<BitVector, String>)> = Vec::new();
    if len <= ctx.tier.pick(4200, 300_000) || small {
        routes.push(("FromIterator<bool>", guard(|| {
            let mut v = BitVector::from_iter(ModelIter::new(&m));
            enable_all(&mut v);
            v
        })));
        routes.push(("copy_bit_vec(BitVector)", guard(|| {
            let mut v = BitVector::copy_bit_vec(&bv);
            enable_all(&mut v);
            v
        })));
    }
    if m.zeros() == 0 && len > 0 {
        // The all-ones vector through the filling constructor of the raw vector.
        routes.push(("RawVector::with_len(len, true)", guard(|| {
            let mut v = BitVector::from(simple_sds::raw_vector::RawVector::with_len(len, true));
            enable_all(&mut v);
            v
        })));
    }
    if len <= 4200 {
        // Support structures enabled in other orders (the answers may not depend on the order).
        routes.push(("enable_rank, enable_pred_succ, enable_select_zero", guard(|| {
            let mut v = BitVector::from(raw_from_model(&m));
            v.enable_rank();
            v.enable_pred_succ();
            v.enable_select_zero();
            v
        })));
        routes.push(("enable_select_zero, enable_pred_succ, enable_select, enable_rank", guard(|| {
            let mut v = BitVector::from(raw_from_model(&m));
            v.enable_select_zero();
            v.enable_pred_succ();
            v.enable_select();
            v.enable_rank();
            v
        })));
        // A raw vector that went through pushes and pops before the conversion (stale bits beyond
        // the length would corrupt the cached number of set bits).
        routes.push(("RawVector push_bit/pop_bit history", guard(|| {
            use simple_sds::raw_vector::{PopRaw, PushRaw, RawVector};
            let mut raw = RawVector::new();
            for b in ModelIter::new(&m) {
                raw.push_bit(b);
            }
            raw.push_bit(true);
            raw.push_bit(true);
            raw.pop_bit();
            raw.pop_bit();
            let mut v = BitVector::from(raw);
            enable_all(&mut v);
            v
        })));
        routes.push(("RawVector push_int/pop_int history", guard(|| {
            use simple_sds::raw_vector::{PopRaw, PushRaw, RawVector};
            let mut raw = RawVector::new();
            for b in ModelIter::new(&m) {
                raw.push_bit(b);
            }
            unsafe {
                raw.push_int(!0u64, 64);
                raw.pop_int(64);
                raw.push_int(!0u64, 7);
                raw.pop_int(7);
            }
            let mut v = BitVector::from(raw);
            enable_all(&mut v);
            v
        })));
        // A raw vector that was grown with set bits and shrunk back before the conversion: to the end of the
        // current word (the shrink keeps the number of words), and by more than a word (it drops words).
        for (route, grow_to) in [("RawVector resize within the word and back", (m.len as usize / 64 + 1) * 64), ("RawVector resize beyond the word and back", m.len as usize + 100)] {
            routes.push((route, guard(|| {
                use simple_sds::raw_vector::{PushRaw, RawVector};
                let mut raw = RawVector::new();
                for b in ModelIter::new(&m) {
                    raw.push_bit(b);
                }
                let len = raw.len();
                raw.resize(grow_to, true);
                raw.resize(len, true);
                let mut v = BitVector::from(raw);
                enable_all(&mut v);
                v
            })));
        }
        routes.push(("From<SparseVector>", guard(|| {
            let sv: SparseVector = sparse_from_model(&m).expect("harness: sparse builder refused a valid model");
            let mut v = BitVector::from(sv);
            enable_all(&mut v);
            v
        })));
        routes.push(("From<RLVector>", guard(|| {
            let rl: RLVector = rl_from_model(&m).expect("harness: rl builder refused a valid model");
            let mut v = BitVector::from(rl);
            enable_all(&mut v);
            v
        })));
    }
    // The property is about answers: a vector built by another route must hold the same bits, report the
    // same counts and answer the same queries. (That the representation is identical is C11's statement.)
    let _ = &reference;
    for (route, r) in routes {
        match r {
            Ok(v) => {
                let same_bits = guard(|| {
                    v.len() == bv.len() && v.count_ones() == bv.count_ones() && v.count_zeros() == bv.count_zeros() && v.iter().eq(bv.iter())
                });
                ctx.expect(|| format!("BitVector.route({})[bits and counts]", route), same_bits, &true, || json!({"bv": case(), "call": route}));
                let name = format!("BitVector(route {})", route);
                if small {
                    check_bitvec!(ctx, &v, &m, &name, &q, case);
                } else {
                    let mut q2 = Queries::edges(&m, &[64, 512], &[64, 4096], 20, false);
                    q2.full_iters = false;
                    check_bitvec!(ctx, &v, &m, &name, &q2, case);
                }
            }
            Err(msg) => ctx.panic_violation(&format!("BitVector.route({})", route), &msg, None, || json!({"bv": case(), "call": route})),
        }
    }
}

/// Bool iterator over a model (exact size hint, like a `Vec<bool>` iterator).
struct ModelIter<'a> {
    m: &'a Bits,
    i: u128,
    k: usize,
}

impl<'a> ModelIter<'a> {
    fn new(m: &'a Bits) -> Self {
        ModelIter { m, i: 0, k: 0 }
    }
}

impl<'a> Iterator for ModelIter<'a> {
    type Item = bool;
    fn next(&mut self) -> Option<bool> {
        if self.i >= self.m.len {
            return None;
        }
        while self.k < self.m.runs.len() && self.m.runs[self.k].0 + self.m.runs[self.k].1 <= self.i {
            self.k += 1;
        }
        let b = self.k < self.m.runs.len() && self.m.runs[self.k].0 <= self.i;
        self.i += 1;
        Some(b)
    }
    fn size_hint(&self) -> (usize, Option<usize>) {
        let n = (self.m.len - self.i) as usize;
        (n, Some(n))
    }
}

fn explore(ctx: &mut Ctx) {
    vcore::model::self_check().expect("reference model self-check failed");

    // Family 1: every bit sequence of length 0..=N.
    let n = ctx.tier.pick(14, 18);
    for len in 0..=n {
        for word in 0..(1u64 << len) {
            let c = Case::Small { len, word };
            if ctx.mine(&c) {
                check_case(ctx, &c);
            }
        }
    }
    ctx.count("family1_max_len", 0);
    ctx.count_max("family1_max_len", n as u64);

    // Family 2: regime words.
    let alpha = alphabet();
    let depth = ctx.tier.pick(2, 3);
    enumr::words(alpha.len(), depth, |w| {
        if w.is_empty() {
            return;
        }
        let c = Case::Word { letters: w.iter().map(|&i| alpha[i]).collect() };
        if ctx.mine(&c) {
            ctx.count("family2_words", 1);
            check_case(ctx, &c);
        }
    });
    if ctx.tier.is_thorough() {
        let sub = sub_alphabet();
        enumr::words_exact(sub.len(), 4, &mut |w| {
            let c = Case::Word { letters: w.iter().map(|&i| sub[i]).collect() };
            if ctx.mine(&c) {
                ctx.count("family2_words_depth4", 1);
                check_case(ctx, &c);
            }
        });
    }

    // Family 3: length sweep around every threshold.
    let mut lens: Vec<usize> = Vec::new();
    lens.extend(0..=130);
    lens.extend(505..=520);
    lens.extend(4090..=4100);
    if ctx.tier.is_thorough() {
        lens.extend(65530..=65540);
        lens.extend(83515..=83525);
        lens.extend(131070..=131075);
    } else {
        lens.extend([65535, 65536, 65537, 83520, 83521, 83522]);
    }
    for len in lens {
        for fill in [Fill::Zeros, Fill::Ones, Fill::Alternating, Fill::SingleFirst, Fill::SingleMiddle, Fill::SingleLast] {
            let c = Case::Sweep { len, fill };
            if ctx.mine(&c) {
                ctx.count("family3_sweep", 1);
                check_case(ctx, &c);
            }
        }
    }
    ctx.note("select_path", select_path());
}

fn replay(ctx: &mut Ctx, v: &Value) {
    let c: Case = serde_json::from_value(v["bv"].clone()).expect("replay: not a C01 case");
    check_case(ctx, &c);
}

fn main() {
    vcore::run_driver("C01", explore, replay, hook_hits);
}
