//! C20 corroboration on the normal build (free-running OS threads; SAMPLING, decides nothing on its own).
//! It exists for declaration-level changes that the loom build would not contain (e.g. a thread-local
//! counter): a duplicate observed here is a real counterexample; silence proves nothing.
//! It also checks sequentially (deterministic) that every path contains the caller's name part and that
//! consecutive calls differ, for a small alphabet of name parts incl. dotted and empty ones.

use drivers::*;
use simple_sds::serialize::temp_file_name;
use std::collections::HashSet;

const NAME_PARTS: [&str; 7] = ["shared", "x.bin", "a.b.c", "", "with space", "trailing.", "ünï.cödé"];

fn sequential(ctx: &mut Ctx) {
    // Short parts, and parts around the usual 255-byte file-name limit (the function only builds a path).
    let mut parts: Vec<String> = NAME_PARTS.iter().map(|s| s.to_string()).collect();
    for len in [100usize, 240, 250, 255, 256, 300] {
        parts.push("n".repeat(len));
    }
    // name parts with a directory component (the function only builds a path; nothing is created)
    for p in ["group/item", "worker/1", "a/b/c.bin"] {
        parts.push(p.to_string());
    }
    for name in parts.iter().map(|s| s.as_str()) {
        let case = || json!({"Sequential": name});
        ctx.announce(case);
        let got = guard(|| {
            let paths: Vec<String> = (0..50).map(|_| temp_file_name(name).to_string_lossy().to_string()).collect();
            let distinct: HashSet<&String> = paths.iter().collect();
            // "contains the caller's name part": in the file name, or - for a name part with a directory
            // component - in the path below the temporary directory.
            let contains = paths.iter().all(|p| if name.contains('/') { p.contains(name) } else { std::path::Path::new(p).file_name().map(|f| f.to_string_lossy().contains(name)).unwrap_or(false) });
            (distinct.len() == paths.len(), contains)
        });
        ctx.expect(|| "temp_file_name[sequential](distinct, contains name part)".to_string(), got, &(true, true), case);
        ctx.nontrivial(&name);
    }
}

/// Different name parts in one process: no path may be handed out twice across them either (name parts that
/// extend each other by digits or separators would collide if the pieces of the name were simply concatenated).
fn across_names(ctx: &mut Ctx) {
    let names = ["level", "level1", "level10", "level2", "level_1", "level_", "", "0", "1", "_", "_1", "1_"];
    let case = || json!({"AcrossNames": names});
    ctx.announce(case);
    ctx.nontrivial(&"across-names");
    let got = guard(|| {
        let mut all: HashSet<std::path::PathBuf> = HashSet::new();
        let mut dup: Option<String> = None;
        // This runs first in a fresh process, i.e. with the counter at its initial value. If the pieces of a
        // name were concatenated without a separator, "n1" + 10..99 and "n" + 110..199 would be the same names:
        // 100 calls with one name part, then 1100 with the part it extends (and the same for the empty part).
        for (longer, shorter) in [("n1", "n"), ("1", "")] {
            for _ in 0..100 {
                let p = temp_file_name(longer);
                if !all.insert(p.clone()) && dup.is_none() {
                    dup = Some(p.to_string_lossy().to_string());
                }
            }
            for _ in 0..1100 {
                let p = temp_file_name(shorter);
                if !all.insert(p.clone()) && dup.is_none() {
                    dup = Some(p.to_string_lossy().to_string());
                }
            }
        }
        for _round in 0..150 {
            for name in names {
                let p = temp_file_name(name);
                if !all.insert(p.clone()) && dup.is_none() {
                    dup = Some(p.to_string_lossy().to_string());
                }
            }
        }
        dup
    });
    ctx.expect(|| "temp_file_name[different name parts](no path twice)".to_string(), got, &None, case);
}

fn free_running(ctx: &mut Ctx, threads: usize, calls: usize) {
    for name in ["shared", "x.bin"] {
        let case = || json!({"FreeRunning": {"threads": threads, "calls": calls, "name": name}});
        ctx.announce(case);
        let handles: Vec<_> = (0..threads).map(|_| std::thread::spawn(move || (0..calls).map(|_| temp_file_name(name)).collect::<Vec<_>>())).collect();
        let mut all = HashSet::new();
        let mut dup: Option<String> = None;
        let mut n = 0u64;
        for h in handles {
            for p in h.join().unwrap() {
                n += 1;
                if !all.insert(p.clone()) && dup.is_none() {
                    dup = Some(p.to_string_lossy().to_string());
                }
            }
        }
        ctx.evals_add(n);
        ctx.count("free_running_calls(sampling)", n);
        ctx.require(|| "temp_file_name[free-running threads]".to_string(), dup.is_none(), case, || json!({"observed": format!("path {:?} was handed out twice", dup)}));
    }
}

/// Deterministic histories that do not depend on the schedule: threads that run one after the other, a
/// long run of calls from one thread (beyond 2^16 and 2^17 calls), and files that already exist under the
/// names an implementation is about to hand out (the file system as an environment answer).
fn histories(ctx: &mut Ctx) {
    let case = || json!({"Histories": "sequential threads + long run + pre-existing files"});
    ctx.announce(case);
    ctx.nontrivial(&"histories");
    let got = guard(|| {
        let mut all: HashSet<std::path::PathBuf> = HashSet::new();
        let mut dup: Option<String> = None;
        let mut created: Vec<std::path::PathBuf> = Vec::new();
        let mut take = |p: std::path::PathBuf, all: &mut HashSet<std::path::PathBuf>, dup: &mut Option<String>| {
            if !all.insert(p.clone()) && dup.is_none() {
                *dup = Some(p.to_string_lossy().to_string());
            }
        };
        take(temp_file_name("hist"), &mut all, &mut dup);
        // three threads, one after the other, a few names each
        for _ in 0..3 {
            let names = std::thread::spawn(|| (0..3).map(|_| temp_file_name("hist")).collect::<Vec<_>>()).join().unwrap();
            for p in names {
                take(p, &mut all, &mut dup);
            }
        }
        // Pre-existing files: learn the naming scheme from one name, then create the files that the next
        // few counter values would name (only if the name ends in a decimal counter).
        let probe = temp_file_name("hist");
        take(probe.clone(), &mut all, &mut dup);
        let s = probe.to_string_lossy().to_string();
        if let Some(pos) = s.rfind('_') {
            if let Ok(k) = s[pos + 1..].parse::<u64>() {
                for d in 1..=4u64 {
                    let f = std::path::PathBuf::from(format!("{}_{}", &s[..pos], k + d));
                    if std::fs::write(&f, b"x").is_ok() {
                        created.push(f);
                    }
                }
            }
        }
        for _ in 0..12 {
            take(temp_file_name("hist"), &mut all, &mut dup);
        }
        // a long run from one thread
        for _ in 0..140_000 {
            take(temp_file_name("hist"), &mut all, &mut dup);
        }
        let names = std::thread::spawn(|| (0..70_000).map(|_| temp_file_name("hist")).collect::<Vec<_>>()).join().unwrap();
        for p in names {
            take(p, &mut all, &mut dup);
        }
        for f in created {
            let _ = std::fs::remove_file(f);
        }
        (dup, all.len())
    });
    ctx.evals_add(210_000);
    ctx.expect(|| "temp_file_name[sequential threads, long run, pre-existing files]".to_string(), got.map(|(d, _)| d), &None, case);
}

fn explore(ctx: &mut Ctx) {
    if !ctx.mine_index(0) {
        return;
    }
    across_names(ctx); // first: it wants the counter at its initial value
    sequential(ctx);
    histories(ctx);
    let calls = ctx.tier.pick(20_000, 200_000);
    free_running(ctx, 8, calls);
}

fn replay(ctx: &mut Ctx, v: &Value) {
    if v.get("Histories").is_some() {
        histories(ctx);
    } else if v.get("Sequential").is_some() {
        sequential(ctx);
    } else if v.get("AcrossNames").is_some() {
        across_names(ctx);
    } else {
        let t = v["FreeRunning"]["threads"].as_u64().unwrap_or(8) as usize;
        let c = v["FreeRunning"]["calls"].as_u64().unwrap_or(20_000) as usize;
        free_running(ctx, t, c);
    }
}

fn main() {
    vcore::run_driver("C20", explore, replay, hook_hits);
}
