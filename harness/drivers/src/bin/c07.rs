//! C07 — files follow the published serialization format in both directions.
//! Direction 1: everything the library writes is decoded by the independent codec (written from
//! SERIALIZATION.md alone) and must give the same logical content and satisfy every "must".
//! Direction 2: files produced from the document's rules, with every admissible writer-side choice,
//! must load and answer all queries.

use drivers::catalogue::{self, BitsDesc, Desc};
use drivers::*;
use serde::{Deserialize, Serialize};
use simple_sds::bit_vector::BitVector;
use simple_sds::int_vector::IntVector;
use simple_sds::ops::{Access, Vector, VectorIndex};
use simple_sds::raw_vector::RawVector;
use simple_sds::rl_vector::RLVector;
use simple_sds::sparse_vector::SparseVector;
use simple_sds::wavelet_matrix::wm_core::WMCore;
use simple_sds::wavelet_matrix::WaveletMatrix;
use vcore::enumr::{self, Letter};
use vcore::spec::{self, Reader};

#[derive(Serialize, Deserialize, Clone, Debug, Hash)]
enum Case {
    /// Direction 1: the library writes `desc`, the document reads.
    Written(Desc),
    /// Direction 2: the document writes, the library reads.
    DocRaw(BitsDesc),
    DocInt { width: u64, values: Vec<u64> },
    DocPlain(BitsDesc),
    DocSparse { bits: BitsDesc, width: u64 },
    DocSparseMulti { universe: u64, values: Vec<u64>, width: u64 },
    DocRl { bits: BitsDesc, extra_sample_width: u64 },
    DocWm(Vec<u64>),
    /// A library-written sparse vector / wavelet matrix file in which the embedded bitvectors keep only a subset of supports.
    SparseSupports { bits: BitsDesc, mask: u8 },
    WmSupports { values: Vec<u64>, masks: Vec<u8> },
    DocBasic(Vec<u64>, Vec<u8>, String),
    /// Direction 1 for the buffered file writers: the file they leave is a document-conforming integer / raw vector.
    WriterInt { width: usize, items: usize, buf_items: Option<usize>, close: bool },
    WriterRaw { bits: usize, buf_len: Option<usize>, close: bool },
}

fn kind_of(d: &Desc) -> String {
    let s = format!("{:?}", d);
    s.split(|c: char| !c.is_alphanumeric()).next().unwrap_or("?").to_string()
}

fn bools_of(b: &BitsDesc) -> Vec<bool> {
    b.model().to_bools()
}

/// Decodes `bytes` as the type of `d` using only the document; returns a mismatch description.
fn decode_and_compare(d: &Desc, bytes: &[u8], problems: &mut Vec<String>) -> Result<Option<String>, String> {
    let mut r = Reader::new(bytes);
    let mism: Option<String> = match d {
        Desc::U64(v) => (r.element()? != *v).then(|| "element differs".to_string()),
        Desc::Usize(v) => (r.element()? != *v as u64).then(|| "element differs".to_string()),
        Desc::Pair(a, b) => ((r.element()?, r.element()?) != (*a, *b)).then(|| "pair differs".to_string()),
        Desc::VecU64(v) => (spec::read_vec_u64(&mut r)? != *v).then(|| "vector differs".to_string()),
        Desc::VecUsize(v) => (spec::read_vec_u64(&mut r)? != v.iter().map(|&x| x as u64).collect::<Vec<_>>()).then(|| "vector differs".to_string()),
        Desc::VecPair(v) => (spec::read_vec_pair(&mut r)? != *v).then(|| "vector of pairs differs".to_string()),
        Desc::Bytes(v) => (spec::read_bytes(&mut r, problems)? != *v).then(|| "byte vector differs".to_string()),
        Desc::Str(s) => (spec::read_bytes(&mut r, problems)? != s.as_bytes()).then(|| "string differs".to_string()),
        Desc::OptVecU64(o) => {
            let payload = spec::read_optional(&mut r)?;
            match (o, payload) {
                (None, None) => None,
                (Some(v), Some(e)) => {
                    let b: Vec<u8> = e.iter().flat_map(|x| x.to_le_bytes()).collect();
                    (spec::read_vec_u64(&mut Reader::new(&b))? != *v).then(|| "optional vector differs".to_string())
                }
                _ => Some("optional presence differs".to_string()),
            }
        }
        Desc::OptBytes(o) => {
            let payload = spec::read_optional(&mut r)?;
            match (o, payload) {
                (None, None) => None,
                (Some(v), Some(e)) => {
                    let b: Vec<u8> = e.iter().flat_map(|x| x.to_le_bytes()).collect();
                    (spec::read_bytes(&mut Reader::new(&b), problems)? != *v).then(|| "optional bytes differ".to_string())
                }
                _ => Some("optional presence differs".to_string()),
            }
        }
        Desc::OptStr(o) => {
            let payload = spec::read_optional(&mut r)?;
            match (o, payload) {
                (None, None) => None,
                (Some(v), Some(e)) => {
                    let b: Vec<u8> = e.iter().flat_map(|x| x.to_le_bytes()).collect();
                    (spec::read_bytes(&mut Reader::new(&b), problems)? != v.as_bytes()).then(|| "optional string differs".to_string())
                }
                _ => Some("optional presence differs".to_string()),
            }
        }
        Desc::OptU64(o) => {
            let payload = spec::read_optional(&mut r)?;
            (payload != o.map(|v| vec![v])).then(|| "optional element differs".to_string())
        }
        Desc::OptSparse(_) | Desc::OptRl(_) | Desc::OptWm(_) => {
            // Optional composites: the payload is the inner type's own format and fills the declared length exactly.
            let payload = spec::read_optional(&mut r)?;
            let inner = match d {
                Desc::OptSparse(o) => o.clone().map(Desc::Sparse),
                Desc::OptRl(o) => o.clone().map(Desc::Rl),
                Desc::OptWm(o) => o.clone().map(Desc::Wm),
                _ => unreachable!(),
            };
            match (inner, payload) {
                (None, None) => None,
                (Some(di), Some(e)) => {
                    let b: Vec<u8> = e.iter().flat_map(|x| x.to_le_bytes()).collect();
                    decode_and_compare(&di, &b, problems)?.map(|m| format!("optional payload: {}", m))
                }
                _ => Some("optional presence differs".to_string()),
            }
        }
        Desc::OptOptVecU64(_) | Desc::OptOptStr(_) | Desc::OptInt(_) | Desc::OptBv(_) => {
            // Nested / structured optionals: the outer length must cover exactly the rest of the file
            // ("can be loaded and serialized as a vector of elements"); the payload is the inner type's format.
            let payload = spec::read_optional(&mut r)?;
            match (d, payload) {
                (Desc::OptInt(Some((w, v))), Some(e)) => {
                    let b: Vec<u8> = e.iter().flat_map(|x| x.to_le_bytes()).collect();
                    let iv = spec::read_int_vec(&mut Reader::new(&b), problems)?;
                    (iv.width != *w as u64 || iv.values != *v).then(|| "optional integer vector differs".to_string())
                }
                (Desc::OptBv(Some((bits, _))), Some(e)) => {
                    let b: Vec<u8> = e.iter().flat_map(|x| x.to_le_bytes()).collect();
                    let mut rr = Reader::new(&b);
                    let bv = spec::read_plain(&mut rr, problems)?;
                    if !rr.at_end() {
                        problems.push("optional bitvector: declared length does not match the bitvector's size".to_string());
                    }
                    (bv.raw.to_bools() != bools_of(bits)).then(|| "optional bitvector differs".to_string())
                }
                (Desc::OptInt(None), None) | (Desc::OptBv(None), None) | (Desc::OptOptVecU64(None), None) => None,
                (Desc::OptOptVecU64(Some(inner)), Some(e)) | (Desc::OptOptVecU64(Some(inner)), Some(e)) => {
                    let b: Vec<u8> = e.iter().flat_map(|x| x.to_le_bytes()).collect();
                    let mut rr = Reader::new(&b);
                    let p2 = spec::read_optional(&mut rr)?;
                    match (inner, p2) {
                        (None, None) => None,
                        (Some(v), Some(e2)) => {
                            let b2: Vec<u8> = e2.iter().flat_map(|x| x.to_le_bytes()).collect();
                            (spec::read_vec_u64(&mut Reader::new(&b2))? != *v).then(|| "nested optional vector differs".to_string())
                        }
                        _ => Some("nested optional presence differs".to_string()),
                    }
                }
                (Desc::OptOptStr(Some(Some(s))), Some(e)) => {
                    let b: Vec<u8> = e.iter().flat_map(|x| x.to_le_bytes()).collect();
                    let mut rr = Reader::new(&b);
                    match spec::read_optional(&mut rr)? {
                        Some(e2) => {
                            let b2: Vec<u8> = e2.iter().flat_map(|x| x.to_le_bytes()).collect();
                            (spec::read_bytes(&mut Reader::new(&b2), problems)? != s.as_bytes()).then(|| "nested optional string differs".to_string())
                        }
                        None => Some("nested optional presence differs".to_string()),
                    }
                }
                _ => Some("optional presence differs".to_string()),
            }
        }
        Desc::Raw(b) | Desc::RawHist(b) => (spec::read_raw(&mut r, problems)?.to_bools() != bools_of(b)).then(|| "raw bits differ".to_string()),
        Desc::Int { width, values } | Desc::IntHist { width, values } => {
            let iv = spec::read_int_vec(&mut r, problems)?;
            (iv.width != *width as u64 || iv.values != *values).then(|| format!("integer vector differs: width {} values {:?}", iv.width, &iv.values[..iv.values.len().min(8)]))
        }
        Desc::Bv { bits, supports } => {
            let bv = spec::read_plain(&mut r, problems)?;
            let present = (bv.rank.is_some() as u8) | ((bv.select.is_some() as u8) << 1) | ((bv.select_zero.is_some() as u8) << 2);
            if present != *supports {
                Some(format!("support structures present in the file: {:#05b}, enabled when written: {:#05b}", present, supports))
            } else {
                (bv.raw.to_bools() != bools_of(bits)).then(|| "bits differ".to_string())
            }
        }
        Desc::Sparse(b) => {
            let f = spec::read_sparse(&mut r, problems)?;
            let m = b.model();
            (f.len as u128 != m.len || f.values.iter().map(|&v| v as u128).collect::<Vec<_>>() != m.positions()).then(|| "sparse content differs".to_string())
        }
        Desc::SparseMulti { universe, values } => {
            let f = spec::read_sparse(&mut r, problems)?;
            (f.len != *universe as u64 || f.values != values.iter().map(|&v| v as u64).collect::<Vec<_>>()).then(|| "multiset content differs".to_string())
        }
        Desc::Rl(b) => {
            let f = spec::read_rl(&mut r, problems)?;
            let m = b.model();
            (f.len as u128 != m.len || f.runs.iter().map(|&(s, l)| (s as u128, l as u128)).collect::<Vec<_>>() != m.runs).then(|| format!("run-length content differs: {} runs decoded, {} expected", f.runs.len(), m.runs.len()))
        }
        Desc::WmCore(values) => {
            let (w, levels) = spec::read_wm_core(&mut r, problems)?;
            let max = values.iter().copied().max().unwrap_or(0);
            if w != spec::bit_len(max) {
                problems.push(format!("wm core: width {} is not bit_len(max = {})", w, max));
            }
            (spec::wm_values(w, &levels) != *values).then(|| "wavelet matrix core content differs".to_string())
        }
        Desc::Wm(values) => (spec::read_wm(&mut r, problems)?.values != *values).then(|| "wavelet matrix content differs".to_string()),
        Desc::RankSup(_) | Desc::SelSup(_) | Desc::SelZeroSup(_) => {
            // Implementation-dependent support structures: the document only requires whole elements.
            r.pos = bytes.len();
            None
        }
    };
    if mism.is_none() && !r.at_end() {
        return Ok(Some(format!("the document's reader stops at byte {} of {}", r.pos, bytes.len())));
    }
    Ok(mism)
}

fn check_written(ctx: &mut Ctx, d: &Desc) {
    let c = Case::Written(d.clone());
    let case = || serde_json::to_value(&c).unwrap();
    ctx.announce(case);
    let kind = kind_of(d);
    ctx.note("kinds", &kind);
    let bytes = match guard(|| catalogue::build(d).bytes()) {
        Ok(b) => b,
        Err(msg) => {
            ctx.panic_violation(&format!("{}.serialize", kind), &msg, None, case);
            return;
        }
    };
    ctx.require(|| format!("{}.format[whole 8-byte elements]", kind), bytes.len() % 8 == 0, case, || json!({"observed": bytes.len()}));
    let mut problems: Vec<String> = Vec::new();
    match decode_and_compare(d, &bytes, &mut problems) {
        Ok(mism) => {
            ctx.require(|| format!("{}.format[document decodes the same content]", kind), mism.is_none(), case, || json!({"observed": mism}));
            ctx.require(|| format!("{}.format[requirements of the document]", kind), problems.is_empty(), case, || json!({"observed": problems}));
        }
        Err(e) => {
            ctx.require(|| format!("{}.format[document can decode]", kind), false, case, || json!({"observed": e, "problems": problems}));
        }
    }
    // Regime evidence for run-length vectors: greedy packing is reported, not required.
    if let Desc::Rl(_) = d {
        let mut p = Vec::new();
        if let Ok(f) = spec::read_rl(&mut Reader::new(&bytes), &mut p) {
            ctx.count(if f.greedy { "rl_files_greedily_packed" } else { "rl_files_not_greedily_packed(informational)" }, 1);
            ctx.count_max("max_rl_blocks", f.blocks);
        }
    }
}

/// Library load of a document-written file: `Ok(value)` or the error text.
fn lib_load<T: simple_sds::serialize::Serialize>(file: &[u8]) -> Result<T, String> {
    match guard(|| from_bytes::<T>(file)) {
        Ok(Ok(v)) => Ok(v),
        Ok(Err(e)) => Err(format!("Err({})", e)),
        Err(msg) => Err(format!("panic: {}", msg)),
    }
}

/// The files of the buffered writers, decoded by the document's reader.
fn check_writer_file(ctx: &mut Ctx, c: &Case) {
    use simple_sds::int_vector::IntVectorWriter;
    use simple_sds::ops::Push;
    use simple_sds::raw_vector::{PushRaw, RawVectorWriter};
    let case = || serde_json::to_value(c).unwrap();
    let path = ctx.scratch.join("c07-writer.bin");
    let _ = std::fs::remove_file(&path);
    let value = |i: usize| (i as u64).wrapping_mul(0x9E37_79B9_7F4A_7C15) ^ 0x0123_4567_89AB_CDEF;
    match c {
        Case::WriterInt { width, items, buf_items, close } => {
            let mask = if *width == 64 { !0u64 } else { (1u64 << width) - 1 };
            let done = guard(|| {
                let mut w = match buf_items {
                    Some(b) => IntVectorWriter::with_buf_len(&path, *width, *b),
                    None => IntVectorWriter::new(&path, *width),
                }
                .map_err(|e| e.to_string())?;
                for i in 0..*items {
                    w.push(value(i));
                }
                if *close {
                    w.close().map_err(|e| e.to_string())?;
                }
                drop(w);
                Ok::<(), String>(())
            });
            if !ctx.expect(|| "IntVectorWriter.file[written]".to_string(), done, &Ok(()), case) {
                return;
            }
            let bytes = std::fs::read(&path).unwrap_or_default();
            let mut problems = Vec::new();
            let mut r = Reader::new(&bytes);
            match spec::read_int_vec(&mut r, &mut problems) {
                Ok(iv) => {
                    let want: Vec<u64> = (0..*items).map(|i| value(i) & mask).collect();
                    ctx.require(|| "IntVectorWriter.format[document decodes the same content]".to_string(), iv.width == *width as u64 && iv.values == want && r.at_end(), case, || json!({"observed": format!("width {} with {} items, reader at end: {}", iv.width, iv.values.len(), r.at_end()), "expected": format!("width {} with {} items", width, items)}));
                    ctx.require(|| "IntVectorWriter.format[requirements of the document]".to_string(), problems.is_empty(), case, || json!({"observed": problems}));
                }
                Err(e) => {
                    ctx.require(|| "IntVectorWriter.format[document can decode]".to_string(), false, case, || json!({"observed": e, "problems": problems}));
                }
            }
        }
        Case::WriterRaw { bits, buf_len, close } => {
            let done = guard(|| {
                let mut header: Vec<u64> = Vec::new();
                let mut w = match buf_len {
                    Some(b) => RawVectorWriter::with_buf_len(&path, &mut header, *b),
                    None => RawVectorWriter::new(&path, &mut header),
                }
                .map_err(|e| e.to_string())?;
                for i in 0..*bits {
                    w.push_bit(value(i / 64) >> (i % 64) & 1 == 1);
                }
                if *close {
                    w.close().map_err(|e| e.to_string())?;
                }
                drop(w);
                Ok::<(), String>(())
            });
            if !ctx.expect(|| "RawVectorWriter.file[written]".to_string(), done, &Ok(()), case) {
                return;
            }
            let bytes = std::fs::read(&path).unwrap_or_default();
            let mut problems = Vec::new();
            let mut r = Reader::new(&bytes);
            match spec::read_raw(&mut r, &mut problems) {
                Ok(raw) => {
                    let want: Vec<bool> = (0..*bits).map(|i| value(i / 64) >> (i % 64) & 1 == 1).collect();
                    ctx.require(|| "RawVectorWriter.format[document decodes the same content]".to_string(), raw.to_bools() == want && r.at_end(), case, || json!({"observed": format!("{} bits, reader at end: {}", raw.to_bools().len(), r.at_end()), "expected": format!("{} bits", bits)}));
                    ctx.require(|| "RawVectorWriter.format[requirements of the document]".to_string(), problems.is_empty(), case, || json!({"observed": problems}));
                }
                Err(e) => {
                    ctx.require(|| "RawVectorWriter.format[document can decode]".to_string(), false, case, || json!({"observed": e, "problems": problems}));
                }
            }
        }
        _ => unreachable!(),
    }
    let _ = std::fs::remove_file(&path);
}

fn check_doc(ctx: &mut Ctx, c: &Case) {
    let case = || serde_json::to_value(c).unwrap();
    ctx.announce(case);
    ctx.nontrivial(c);
    if matches!(c, Case::WriterInt { .. } | Case::WriterRaw { .. }) {
        check_writer_file(ctx, c);
        return;
    }
    match c {
        Case::WriterInt { .. } | Case::WriterRaw { .. } => unreachable!(),
        Case::Written(d) => check_written(ctx, d),
        Case::DocRaw(bits) => {
            let m = bits.model();
            let mut file = Vec::new();
            spec::write_raw(&mut file, &spec::RawBits::from_bools(&m.to_bools()));
            let got = lib_load::<RawVector>(&file).map(|v| v == raw_from_model(&m));
            ctx.expect(|| "RawVector.load[document-written file]".to_string(), Ok(got), &Ok(true), case);
        }
        Case::DocInt { width, values } => {
            let mut file = Vec::new();
            spec::write_int_vec(&mut file, &spec::IntVec { width: *width, values: values.clone() });
            let got = lib_load::<IntVector>(&file).map(|v| (v.width() as u64, v.iter().collect::<Vec<u64>>(), v == catalogue::int_vector(*width as usize, values)));
            ctx.expect(|| "IntVector.load[document-written file]".to_string(), Ok(got), &Ok((*width, values.clone(), true)), case);
        }
        Case::DocPlain(bits) => {
            let m = bits.model();
            let mut file = Vec::new();
            spec::write_plain_bare(&mut file, &m.to_bools());
            match lib_load::<BitVector>(&file) {
                Ok(mut bv) => {
                    enable_all(&mut bv);
                    let q = if m.len <= 64 { Queries::exhaustive(&m) } else { Queries::edges(&m, &[64, 512], &[64, 4096], 30, true) };
                    check_bitvec!(ctx, &bv, &m, "BitVector(document-written file)", &q, case);
                }
                Err(e) => {
                    ctx.require(|| "BitVector.load[document-written file]".to_string(), false, case, || json!({"observed": e}));
                }
            }
        }
        Case::DocSparse { bits, width } => {
            let m = bits.model();
            let values: Vec<u64> = m.positions().into_iter().map(|p| p as u64).collect();
            let mut file = Vec::new();
            spec::write_sparse(&mut file, m.len as u64, &values, *width);
            match lib_load::<SparseVector>(&file) {
                Ok(sv) => {
                    let q = if m.len <= 64 { Queries::exhaustive(&m) } else { Queries::edges(&m, &[1u128 << *width], &[16], 24, m.len <= 100_000) };
                    check_bitvec!(ctx, &sv, &m, "SparseVector(document-written file)", &q, case);
                }
                Err(e) => {
                    ctx.require(|| "SparseVector.load[document-written file]".to_string(), false, case, || json!({"observed": e}));
                }
            }
        }
        Case::DocSparseMulti { universe, values, width } => {
            let mut file = Vec::new();
            spec::write_sparse(&mut file, *universe, values, *width);
            let got = lib_load::<SparseVector>(&file).map(|sv| {
                use simple_sds::ops::{BitVec, Select};
                (sv.len() as u64, sv.one_iter().map(|(_, p)| p as u64).collect::<Vec<u64>>())
            });
            ctx.expect(|| "SparseVector(multiset).load[document-written file]".to_string(), Ok(got), &Ok((*universe, values.clone())), case);
        }
        Case::DocRl { bits, extra_sample_width } => {
            let m = bits.model();
            let runs: Vec<(u64, u64)> = m.runs.iter().map(|&(s, l)| (s as u64, l as u64)).collect();
            let mut file = Vec::new();
            spec::write_rl(&mut file, m.len as u64, &runs, *extra_sample_width);
            match lib_load::<RLVector>(&file) {
                Ok(rl) => {
                    let q = if m.len <= 64 { Queries::exhaustive(&m) } else { Queries::edges(&m, &[], &[], 30, m.len <= 100_000) };
                    check_bitvec!(ctx, &rl, &m, "RLVector(document-written file)", &q, case);
                    if *extra_sample_width == 0 {
                        // With the mandated minimal sample width the document determines the file completely.
                        let same = guard(|| to_bytes(&rl_from_model(&m).unwrap()) == file);
                        if same == Ok(true) {
                            ctx.count("rl_document_file_identical_to_library_file", 1);
                        } else {
                            ctx.count("rl_document_file_differs_from_library_file(informational)", 1);
                        }
                    }
                }
                Err(e) => {
                    ctx.require(|| "RLVector.load[document-written file]".to_string(), false, case, || json!({"observed": e}));
                }
            }
        }
        Case::DocWm(values) => {
            let mut file = Vec::new();
            spec::write_wm(&mut file, values);
            match lib_load::<WaveletMatrix>(&file) {
                Ok(wm) => {
                    ctx.expect(|| "WaveletMatrix(document-written file).iter".to_string(), guard(|| wm.iter().collect::<Vec<u64>>()), values, case);
                    let max = values.iter().copied().max().unwrap_or(0);
                    for v in 0..=max + 1 {
                        let occ: Vec<usize> = values.iter().enumerate().filter(|(_, &x)| x == v).map(|(i, _)| i).collect();
                        ctx.expect(|| "WaveletMatrix(document-written file).contains".to_string(), guard(|| wm.contains(v)), &!occ.is_empty(), case);
                        for i in 0..=values.len() {
                            ctx.expect(|| "WaveletMatrix(document-written file).rank".to_string(), guard(|| wm.rank(i, v)), &occ.iter().filter(|&&p| p < i).count(), case);
                        }
                        for r in 0..=occ.len() {
                            ctx.expect(|| "WaveletMatrix(document-written file).select".to_string(), guard(|| wm.select(r, v)), &occ.get(r).copied(), case);
                        }
                    }
                    ctx.expect(|| "WaveletMatrix(document-written file)[== built]".to_string(), guard(|| wm == WaveletMatrix::from(values.clone())), &true, case);
                }
                Err(e) => {
                    ctx.require(|| "WaveletMatrix.load[document-written file]".to_string(), false, case, || json!({"observed": e}));
                }
            }
            let mut file = Vec::new();
            spec::write_wm_core(&mut file, values);
            let got = lib_load::<WMCore>(&file).map(|core| core == WMCore::from(values.clone()));
            ctx.expect(|| "WMCore.load[document-written file]".to_string(), Ok(got), &Ok(true), case);
        }
        Case::SparseSupports { bits, mask } => {
            let m = bits.model();
            let file = spec::rewrite_sparse_supports(&to_bytes(&sparse_from_model(&m).unwrap()), *mask).expect("codec: cannot rewrite a library-written sparse file");
            match lib_load::<SparseVector>(&file) {
                Ok(sv) => {
                    let q = if m.len <= 64 { Queries::exhaustive(&m) } else { Queries::edges(&m, &[], &[16], 24, m.len <= 100_000) };
                    check_bitvec!(ctx, &sv, &m, "SparseVector(file with a subset of supports)", &q, case);
                }
                Err(e) => {
                    ctx.require(|| "SparseVector.load[file with a subset of supports]".to_string(), false, case, || json!({"observed": e}));
                }
            }
        }
        Case::WmSupports { values, masks } => {
            let file = spec::rewrite_wm_supports(&to_bytes(&WaveletMatrix::from(values.clone())), masks).expect("codec: cannot rewrite a library-written wavelet matrix file");
            match lib_load::<WaveletMatrix>(&file) {
                Ok(wm) => {
                    ctx.expect(|| "WaveletMatrix(file with subsets of supports).iter".to_string(), guard(|| wm.iter().collect::<Vec<u64>>()), values, case);
                    let max = values.iter().copied().max().unwrap_or(0);
                    for v in 0..=max + 1 {
                        let occ: Vec<usize> = values.iter().enumerate().filter(|(_, &x)| x == v).map(|(i, _)| i).collect();
                        for i in 0..=values.len() {
                            ctx.expect(|| "WaveletMatrix(file with subsets of supports).rank".to_string(), guard(|| wm.rank(i, v)), &occ.iter().filter(|&&p| p < i).count(), case);
                        }
                        for r in 0..=occ.len() {
                            ctx.expect(|| "WaveletMatrix(file with subsets of supports).select".to_string(), guard(|| wm.select(r, v)), &occ.get(r).copied(), case);
                        }
                    }
                }
                Err(e) => {
                    ctx.require(|| "WaveletMatrix.load[file with subsets of supports]".to_string(), false, case, || json!({"observed": e}));
                }
            }
        }
        Case::DocBasic(v, b, s) => {
            let mut file = Vec::new();
            spec::write_vec_u64(&mut file, v);
            ctx.expect(|| "Vec<u64>.load[document-written file]".to_string(), Ok(lib_load::<Vec<u64>>(&file)), &Ok(v.clone()), case);
            let mut file = Vec::new();
            spec::write_bytes(&mut file, b);
            ctx.expect(|| "Vec<u8>.load[document-written file]".to_string(), Ok(lib_load::<Vec<u8>>(&file)), &Ok(b.clone()), case);
            let mut file = Vec::new();
            spec::write_bytes(&mut file, s.as_bytes());
            ctx.expect(|| "String.load[document-written file]".to_string(), Ok(lib_load::<String>(&file)), &Ok(s.clone()), case);
            let mut file = Vec::new();
            spec::write_optional(&mut file, None);
            ctx.expect(|| "Option.load[document-written absent]".to_string(), Ok(lib_load::<Option<Vec<u64>>>(&file)), &Ok(None), case);
            let mut inner = Vec::new();
            spec::write_vec_u64(&mut inner, v);
            let elems: Vec<u64> = inner.chunks(8).map(|c| u64::from_le_bytes(c.try_into().unwrap())).collect();
            let mut file = Vec::new();
            spec::write_optional(&mut file, Some(&elems));
            ctx.expect(|| "Option.load[document-written present]".to_string(), Ok(lib_load::<Option<Vec<u64>>>(&file)), &Ok(Some(v.clone())), case);
        }
    }
}

fn explore(ctx: &mut Ctx) {
    vcore::model::self_check().expect("reference model self-check failed");
    let thorough = ctx.tier.is_thorough();
    // Direction 1: catalogue + small scope of every structured type.
    let mut written: Vec<Desc> = catalogue::catalogue(true, ctx.seed_pattern());
    let n = ctx.tier.pick(14, 20);
    for len in 0..=n {
        for word in 0..(1u64 << len) {
            let bits = BitsDesc::Word { len, word };
            written.push(Desc::Raw(bits.clone()));
            written.push(Desc::Bv { bits: bits.clone(), supports: (word % 8) as u8 });
            written.push(Desc::Sparse(bits.clone()));
            written.push(Desc::Rl(bits));
        }
    }
    // Sparse: every low width the parameter rule can choose, with universes that are / are not multiples of 2^w.
    for w in 1..=40u64 {
        for m in [1u64, 2, 5] {
            let n0 = 3 * m * (1u64 << w) / 2;
            for n in [n0, n0 - 1, n0 + 1, (n0 >> w) << w, ((n0 >> w) << w) + 1] {
                if n < m + 2 {
                    continue;
                }
                let pairs: Vec<(u64, u64)> = (0..m).map(|i| (if i == 0 { 0 } else { n / m - 1 }, 1)).collect();
                let used: u64 = pairs.iter().map(|p| p.0 + p.1).sum();
                written.push(Desc::Sparse(BitsDesc::Runs { pairs, tail: n - used }));
            }
        }
    }
    // Run-length: 1, 8, 9, many blocks; huge magnitudes.
    for k in [1usize, 31, 32, 33, 64, 255, 256, 257, 600] {
        written.push(Desc::Rl(BitsDesc::Runs { pairs: std::iter::repeat((1u64, 1u64)).take(k).collect(), tail: 0 }));
        written.push(Desc::Rl(BitsDesc::Runs { pairs: std::iter::repeat((9u64, 70u64)).take(k).collect(), tail: 5 }));
    }
    for mag in [1u64 << 20, 1 << 40, 1 << 60] {
        written.push(Desc::Rl(BitsDesc::Runs { pairs: vec![(0, mag), (mag, 1), (1, mag)], tail: mag }));
    }
    // Wavelet matrices: all small vectors (first must be minimal width; absent values = len).
    let scopes: Vec<(usize, usize)> = if thorough { vec![(1, 9), (2, 6), (3, 4), (4, 3)] } else { vec![(1, 8), (2, 5), (3, 3), (4, 2)] };
    let mut wms: Vec<Vec<u64>> = Vec::new();
    for &(w, l) in &scopes {
        enumr::words(1 << w, l, |word| wms.push(word.iter().map(|&x| x as u64).collect()));
    }
    for len in [2usize, 4, 8, 16, 32, 33, 64, 100, 1024, 1030] {
        wms.push((0..len as u64).map(|i| i % 4).collect());
        wms.push((0..len as u64).map(|i| (i * 7) % 5 + 1).collect());
    }
    for v in &wms {
        written.push(Desc::Wm(v.clone()));
        if v.len() <= 6 {
            written.push(Desc::WmCore(v.clone()));
        }
    }
    for d in &written {
        if ctx.mine(d) {
            ctx.count("direction1_library_written_files", 1);
            ctx.sample_tagged(&format!("written:{}", kind_of(d)), || json!({"Written": d}));
            ctx.nontrivial(d);
            check_written(ctx, d);
        }
    }

    // Direction 2: document-written files with every admissible writer-side choice.
    let mut docs: Vec<Case> = Vec::new();
    let n2 = ctx.tier.pick(12, 16);
    for len in 0..=n2 {
        for word in 0..(1u64 << len) {
            let bits = BitsDesc::Word { len, word };
            docs.push(Case::DocRaw(bits.clone()));
            docs.push(Case::DocPlain(bits.clone()));
            for width in 1..=(spec::bit_len(len as u64) + 1).min(63) {
                docs.push(Case::DocSparse { bits: bits.clone(), width });
            }
            let ones = (word & ((1u64 << len) - 1).max(0)).count_ones();
            if ones > 0 || len <= 3 {
                let extras: Vec<u64> = if len <= 5 || thorough { (0..=63).collect() } else { vec![0, 1, 5, 63] };
                for e in extras {
                    docs.push(Case::DocRl { bits: bits.clone(), extra_sample_width: e });
                }
            }
        }
    }
    {
        use Letter::*;
        for bits in [BitsDesc::Letters(vec![Every(3, 200), Zeros(13)]), BitsDesc::Letters(vec![Zeros(511), Ones(2)]), BitsDesc::Letters(vec![Every(3, 5000), Ones(4097)]), BitsDesc::Letters(vec![Every(25000, 5), Zeros(1)])] {
            docs.push(Case::DocRaw(bits.clone()));
            docs.push(Case::DocPlain(bits.clone()));
            for width in [1u64, 2, 3, 5, 8, 12, 17] {
                docs.push(Case::DocSparse { bits: bits.clone(), width });
            }
            for e in [0u64, 1, 7, 40] {
                docs.push(Case::DocRl { bits: bits.clone(), extra_sample_width: e });
            }
        }
        for k in [33usize, 256, 300, 700] {
            for e in [0u64, 1, 5, 50] {
                docs.push(Case::DocRl { bits: BitsDesc::Runs { pairs: std::iter::repeat((1u64, 1u64)).take(k).collect(), tail: 3 }, extra_sample_width: e });
                docs.push(Case::DocRl { bits: BitsDesc::Runs { pairs: std::iter::repeat((70u64, 9u64)).take(k).collect(), tail: 0 }, extra_sample_width: e });
            }
        }
        docs.push(Case::DocRl { bits: BitsDesc::Runs { pairs: vec![(0, 1 << 40), (1 << 50, 1 << 60)], tail: 1 << 61 }, extra_sample_width: 0 });
        docs.push(Case::DocRl { bits: BitsDesc::Runs { pairs: vec![(0, 1 << 40), (1 << 50, 1 << 60)], tail: 1 << 61 }, extra_sample_width: 2 });
    }
    for w in [1u64, 2, 7, 13, 31, 32, 33, 63, 64] {
        let m = if w == 64 { !0u64 } else { (1u64 << w) - 1 };
        docs.push(Case::DocInt { width: w, values: vec![] });
        docs.push(Case::DocInt { width: w, values: vec![m, 0, ctx.seed_pattern() & m, 1, m] });
    }
    for (universe, values) in [(5u64, vec![0u64, 0, 3, 3, 3, 4]), (3, vec![1, 1, 1, 1, 2]), (300, vec![63, 64, 64, 127, 128, 128, 299])] {
        for width in 1..=6u64 {
            docs.push(Case::DocSparseMulti { universe, values: values.clone(), width });
        }
    }
    for v in &wms {
        if v.len() <= ctx.tier.pick(5, 6) || v.len() >= 16 {
            docs.push(Case::DocWm(v.clone()));
        }
    }
    // Support structures present / absent one by one in embedded bitvectors.
    for len in 0..=ctx.tier.pick(5, 7) {
        for word in 0..(1u64 << len) {
            for mask in 0..8u8 {
                docs.push(Case::SparseSupports { bits: BitsDesc::Word { len, word }, mask });
            }
        }
    }
    for mask in 0..8u8 {
        docs.push(Case::SparseSupports { bits: BitsDesc::Letters(vec![Letter::Every(7, 700), Letter::Ones(70)]), mask });
    }
    for v in [vec![1u64, 0, 1, 0], vec![3, 1, 4, 1, 5, 9, 2, 6], vec![0, 0, 0], vec![7, 7, 2]] {
        for a in 0..8u8 {
            docs.push(Case::WmSupports { values: v.clone(), masks: vec![a, 7 - a] });
            docs.push(Case::WmSupports { values: v.clone(), masks: vec![a] });
        }
    }
    // Files left by the buffered writers (closed explicitly or by drop), incl. writers that received nothing.
    for width in [1usize, 7, 13, 32, 63, 64] {
        for items in [0usize, 1, 2, 9, 65, 200] {
            for buf_items in [None, Some(0), Some(1), Some(64)] {
                for close in [true, false] {
                    docs.push(Case::WriterInt { width, items, buf_items, close });
                }
            }
        }
    }
    for bits in [0usize, 1, 63, 64, 65, 128, 1000] {
        for buf_len in [None, Some(0), Some(64), Some(192)] {
            for close in [true, false] {
                docs.push(Case::WriterRaw { bits, buf_len, close });
            }
        }
    }
    docs.push(Case::DocBasic(vec![], vec![], String::new()));
    docs.push(Case::DocBasic(vec![1, u64::MAX, 0], (0..13).collect(), "héllo wörld".to_string()));
    docs.push(Case::DocBasic(vec![7], (0..8).collect(), "12345678".to_string()));
    for c in &docs {
        if ctx.mine(c) {
            ctx.count("direction2_document_written_files", 1);
            let fam = format!("{:?}", c);
            ctx.sample_tagged(&format!("doc:{}", fam.split(|ch: char| !ch.is_alphanumeric()).next().unwrap_or("?")), || serde_json::to_value(c).unwrap());
            check_doc(ctx, c);
        }
    }
}

fn replay(ctx: &mut Ctx, v: &Value) {
    let inner = if v.get("bv").is_some() { &v["bv"] } else { v };
    let c: Case = serde_json::from_value(inner.clone()).expect("replay: not a C07 case");
    check_doc(ctx, &c);
}

fn main() {
    vcore::run_driver("C07", explore, replay, hook_hits);
}
