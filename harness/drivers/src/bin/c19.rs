//! C19 — support structures are optional, rebuildable and never change answers.
//! E-hist: for each bitvector the graph of (enabled subset, built|loaded) states under enable_* and
//! serialize;load is explored to a fixpoint on the real object; composites are loaded from
//! support-free files written by the independent codec; skip_option moves exactly past any optional.

use drivers::catalogue::{self, BitsDesc, Desc};
use drivers::*;
use serde::{Deserialize, Serialize};
use simple_sds::bit_vector::BitVector;
use simple_sds::ops::{BitVec, PredSucc, Rank, Select, SelectZero, Vector, VectorIndex, Access};
use simple_sds::serialize::{self, Serialize as SdsSerialize};
#[allow(unused_imports)]
use simple_sds::ops::Vector as _;
use simple_sds::sparse_vector::SparseVector;
use simple_sds::wavelet_matrix::wm_core::WMCore;
use simple_sds::wavelet_matrix::WaveletMatrix;
use std::collections::{BTreeMap, VecDeque};
use vcore::enumr::Letter;
use vcore::faultio::{CountingReader, ShortReader};
use vcore::spec;

#[derive(Serialize, Deserialize, Clone, Copy, Debug, Hash, PartialEq, Eq)]
enum Act {
    EnableRank,
    EnableSelect,
    EnableSelectZero,
    EnablePredSucc,
    SaveLoad,
}

const ACTS: [Act; 5] = [Act::EnableRank, Act::EnableSelect, Act::EnableSelectZero, Act::EnablePredSucc, Act::SaveLoad];

#[derive(Serialize, Deserialize, Clone, Debug, Hash)]
enum Case {
    Graph { bits: BitsDesc, path: Vec<Act> },
    SparseBare { bits: BitsDesc, width: u64 },
    WmBare { values: Vec<u64> },
    /// A library-written sparse vector file whose bucket bitvector keeps only the supports in `mask`.
    SparsePartial { bits: BitsDesc, mask: u8 },
    /// A library-written wavelet matrix file whose level i keeps the supports in masks[i % len].
    WmPartial { values: Vec<u64>, masks: Vec<u8> },
    Skip { desc: Desc, chunk: usize },
    /// The memory-mapped counterpart of skipping: a serialized bitvector with the supports in `mask` is walked
    /// view by view (the optional parts as `MappedOption`s); offset + length of each view is the next offset.
    MappedWalk { bits: BitsDesc, mask: u8 },
}

fn mask_after(mask: u8, a: Act) -> u8 {
    match a {
        Act::EnableRank => mask | 1,
        Act::EnableSelect => mask | 2,
        Act::EnableSelectZero => mask | 4,
        Act::EnablePredSucc => mask | 3,
        Act::SaveLoad => mask,
    }
}

fn apply(bv: &BitVector, a: Act) -> std::io::Result<BitVector> {
    let mut b = bv.clone();
    match a {
        Act::EnableRank => b.enable_rank(),
        Act::EnableSelect => b.enable_select(),
        Act::EnableSelectZero => b.enable_select_zero(),
        Act::EnablePredSucc => b.enable_pred_succ(),
        Act::SaveLoad => return from_bytes::<BitVector>(&to_bytes(&b)),
    }
    Ok(b)
}

/// Invariants of a state: flags, canonical form, and every enabled query against the model.
fn observe(ctx: &mut Ctx, bv: &BitVector, m: &Bits, mask: u8, q: &Queries, case: &dyn Fn() -> Value) -> bool {
    let flags = (bv.supports_rank(), bv.supports_select(), bv.supports_select_zero(), bv.supports_pred_succ());
    let want = (mask & 1 != 0, mask & 2 != 0, mask & 4 != 0, mask & 3 == 3);
    let mut ok = ctx.expect(|| "BitVector.supports_*".to_string(), Ok(flags), &want, || json!({"x": case(), "call": "supports_rank/select/select_zero/pred_succ"}));
    let mut canonical = BitVector::from(raw_from_model(m));
    if mask & 1 != 0 { canonical.enable_rank(); }
    if mask & 2 != 0 { canonical.enable_select(); }
    if mask & 4 != 0 { canonical.enable_select_zero(); }
    if mask == 7 {
        ok &= ctx.require(|| "BitVector[fully enabled == fully enabled original]".to_string(), *bv == canonical, || json!({"x": case(), "call": "=="}), || json!({"observed": "differs from the fully enabled original"}));
    }
    // bits
    let bits_ok = bv.len() as u128 == m.len && bv.count_ones() as u128 == m.ones() && (0..bv.len()).all(|i| bv.get(i) == m.get(i as u128));
    ok &= ctx.require(|| "BitVector[bits unchanged]".to_string(), bits_ok, || json!({"x": case(), "call": "len/count_ones/get"}), || json!({"observed": "bits differ from the original"}));
    let u = |x: Option<u128>| x.map(|v| v as usize);
    if mask & 1 != 0 {
        for &i in &q.positions {
            let w = m.rank(i as u128) as usize;
            ok &= ctx.expect(|| "BitVector.rank".to_string(), guard(|| bv.rank(i)), &w, || json!({"x": case(), "call": format!("rank({})", i)}));
        }
    }
    if mask & 2 != 0 {
        for &r in &q.ranks {
            ok &= ctx.expect(|| "BitVector.select".to_string(), guard(|| bv.select(r)), &u(m.select(r as u128)), || json!({"x": case(), "call": format!("select({})", r)}));
        }
    }
    if mask & 4 != 0 {
        for &r in &q.zero_ranks {
            ok &= ctx.expect(|| "BitVector.select_zero".to_string(), guard(|| bv.select_zero(r)), &u(m.select_zero(r as u128)), || json!({"x": case(), "call": format!("select_zero({})", r)}));
        }
    }
    if mask & 3 == 3 {
        for &i in &q.positions {
            let wp = m.pred(i as u128).map(|(a, b)| (a as usize, b as usize));
            let ws = m.succ(i as u128).map(|(a, b)| (a as usize, b as usize));
            ok &= ctx.expect(|| "BitVector.predecessor".to_string(), guard(|| bv.predecessor(i).next()), &wp, || json!({"x": case(), "call": format!("predecessor({})", i)}));
            ok &= ctx.expect(|| "BitVector.successor".to_string(), guard(|| bv.successor(i).next()), &ws, || json!({"x": case(), "call": format!("successor({})", i)}));
        }
    }
    ok
}

/// Explores the state graph; with `only`, follows exactly that path (replay).
fn graph(ctx: &mut Ctx, bits: &BitsDesc, only: Option<&[Act]>) {
    let m = bits.model();
    let q = if m.len <= 64 { Queries::exhaustive(&m) } else { Queries::edges(&m, &[64, 512], &[64, 4096], 24, false) };
    ctx.announce(|| json!({"Graph": {"bits": bits, "path": []}}));
    let full = bv_from_model(&m);
    let start = BitVector::from(raw_from_model(&m));
    // state key: (mask, loaded)
    let mut seen: BTreeMap<(u8, bool), (BitVector, Vec<Act>)> = BTreeMap::new();
    let mut queue: VecDeque<(u8, bool)> = VecDeque::new();
    let case0 = || json!({"Graph": {"bits": bits, "path": []}});
    if !observe(ctx, &start, &m, 0, &q, &case0) {
        return;
    }
    seen.insert((0, false), (start, vec![]));
    queue.push_back((0, false));
    ctx.states += 1;
    if let Some(path) = only {
        let mut cur = seen[&(0, false)].0.clone();
        let mut mask = 0u8;
        for (k, &a) in path.iter().enumerate() {
            let case = || json!({"Graph": {"bits": bits, "path": &path[..=k]}});
            ctx.transitions += 1;
            match guard(|| apply(&cur, a)) {
                Ok(Ok(n)) => {
                    mask = mask_after(mask, a);
                    if !observe(ctx, &n, &m, mask, &q, &case) {
                        return;
                    }
                    cur = n;
                }
                Ok(Err(e)) => {
                    ctx.require(|| format!("BitVector.{:?}", a), false, case, || json!({"observed": format!("load failed: {}", e)}));
                    return;
                }
                Err(msg) => {
                    ctx.panic_violation(&format!("BitVector.{:?}", a), &msg, None, case);
                    return;
                }
            }
        }
        return;
    }
    while let Some(key) = queue.pop_front() {
        let (bv, path) = seen[&key].clone();
        for &a in &ACTS {
            let mut p = path.clone();
            p.push(a);
            let case = || json!({"Graph": {"bits": bits, "path": p}});
            ctx.transitions += 1;
            let next = match guard(|| apply(&bv, a)) {
                Ok(Ok(n)) => n,
                Ok(Err(e)) => {
                    ctx.require(|| format!("BitVector.{:?}", a), false, case, || json!({"observed": format!("load failed: {}", e)}));
                    continue;
                }
                Err(msg) => {
                    ctx.panic_violation(&format!("BitVector.{:?}", a), &msg, None, case);
                    continue;
                }
            };
            let nmask = mask_after(key.0, a);
            let nkey = (nmask, key.1 || a == Act::SaveLoad);
            // Idempotence: enabling something that is enabled leaves the value equal.
            if nmask == key.0 && a != Act::SaveLoad {
                ctx.require(|| format!("BitVector.{:?}[idempotent]", a), next == bv, case, || json!({"observed": "enabling an enabled support changed the value"}));
            }
            if !observe(ctx, &next, &m, nmask, &q, &case) {
                continue;
            }
            if nmask == 7 {
                ctx.require(|| "BitVector[fully enabled == fully enabled original]".to_string(), next == full, case, || json!({"observed": "differs from the fully enabled original"}));
            }
            if !seen.contains_key(&nkey) {
                seen.insert(nkey, (next, p.clone()));
                queue.push_back(nkey);
                ctx.states += 1;
            }
        }
    }
    ctx.count_max("max_states_per_bitvector", seen.len() as u64);
    ctx.nontrivial_by_construction(seen.len() as u64);
}

fn sparse_bare(ctx: &mut Ctx, bits: &BitsDesc, width: u64) {
    let c = Case::SparseBare { bits: bits.clone(), width };
    let case = || serde_json::to_value(&c).unwrap();
    ctx.announce(case);
    let m = bits.model();
    let values: Vec<u64> = m.positions().into_iter().map(|p| p as u64).collect();
    let mut file = Vec::new();
    spec::write_sparse(&mut file, m.len as u64, &values, width);
    match guard(|| from_bytes::<SparseVector>(&file)) {
        Ok(Ok(sv)) => {
            let q = if m.len <= 64 { Queries::exhaustive(&m) } else { Queries::edges(&m, &[], &[16], 24, m.len <= 100_000) };
            check_bitvec!(ctx, &sv, &m, "SparseVector(support-free file)", &q, case);
            // The same file as the payload of an optional structure, followed by a sentinel.
            let mut opt: Vec<u8> = ((file.len() / 8) as u64).to_le_bytes().to_vec();
            opt.extend_from_slice(&file);
            opt.extend_from_slice(&0x5E47u64.to_le_bytes());
            let got = guard(|| {
                let mut r = CountingReader::new(&opt);
                let v = Option::<SparseVector>::load(&mut r);
                let next = u64::load(&mut r).ok();
                (v.map(|o| o.map(|x| x == sv)).map_err(|e| e.to_string()), next)
            });
            ctx.expect(|| "Option<SparseVector>.load[support-free file]".to_string(), got, &(Ok(Some(true)), Some(0x5E47)), case);
            // With the width the library itself would choose, the loaded value equals the built one.
            let built = sparse_from_model(&m).unwrap();
            let mut problems = Vec::new();
            let own_width = spec::read_sparse(&mut spec::Reader::new(&to_bytes(&built)), &mut problems).map(|f| f.width).unwrap_or(0);
            if own_width == width {
                ctx.require(|| "SparseVector(support-free file)[== built]".to_string(), sv == built, case, || json!({"observed": "loaded vector differs from the built one"}));
                ctx.count("sparse_files_at_the_library_width", 1);
            }
        }
        Ok(Err(e)) => {
            ctx.require(|| "SparseVector.load[support-free file]".to_string(), false, case, || json!({"observed": format!("Err({})", e)}));
        }
        Err(msg) => ctx.panic_violation("SparseVector.load[support-free file]", &msg, None, case),
    }
}

fn wm_bare(ctx: &mut Ctx, values: &[u64]) {
    let c = Case::WmBare { values: values.to_vec() };
    let case = || serde_json::to_value(&c).unwrap();
    ctx.announce(case);
    let mut file = Vec::new();
    spec::write_wm(&mut file, values);
    match guard(|| from_bytes::<WaveletMatrix>(&file)) {
        Ok(Ok(wm)) => {
            let built = WaveletMatrix::from(values.to_vec());
            ctx.require(|| "WaveletMatrix(support-free file)[== built]".to_string(), wm == built, case, || json!({"observed": "loaded matrix differs from the built one"}));
            ctx.expect(|| "WaveletMatrix(support-free file).iter".to_string(), guard(|| wm.iter().collect::<Vec<u64>>()), &values.to_vec(), case);
            let max = values.iter().copied().max().unwrap_or(0);
            for v in 0..=max + 1 {
                let occ: Vec<usize> = values.iter().enumerate().filter(|(_, &x)| x == v).map(|(i, _)| i).collect();
                for i in 0..=values.len() {
                    ctx.expect(|| "WaveletMatrix(support-free file).rank".to_string(), guard(|| wm.rank(i, v)), &occ.iter().filter(|&&p| p < i).count(), case);
                }
                for r in 0..=occ.len() {
                    ctx.expect(|| "WaveletMatrix(support-free file).select".to_string(), guard(|| wm.select(r, v)), &occ.get(r).copied(), case);
                }
            }
            ctx.expect(|| "WaveletMatrix(support-free file).len".to_string(), guard(|| wm.len()), &values.len(), case);
            let mut opt: Vec<u8> = ((file.len() / 8) as u64).to_le_bytes().to_vec();
            opt.extend_from_slice(&file);
            opt.extend_from_slice(&0x5E47u64.to_le_bytes());
            let got = guard(|| {
                let mut r = CountingReader::new(&opt);
                let v = Option::<WaveletMatrix>::load(&mut r);
                let next = u64::load(&mut r).ok();
                (v.map(|o| o.map(|x| x == wm)).map_err(|e| e.to_string()), next)
            });
            ctx.expect(|| "Option<WaveletMatrix>.load[support-free file]".to_string(), got, &(Ok(Some(true)), Some(0x5E47)), case);
        }
        Ok(Err(e)) => {
            ctx.require(|| "WaveletMatrix.load[support-free file]".to_string(), false, case, || json!({"observed": format!("Err({})", e)}));
        }
        Err(msg) => ctx.panic_violation("WaveletMatrix.load[support-free file]", &msg, None, case),
    }
    let mut file = Vec::new();
    spec::write_wm_core(&mut file, values);
    match guard(|| from_bytes::<WMCore>(&file)) {
        Ok(Ok(core)) => {
            ctx.require(|| "WMCore(support-free file)[== built]".to_string(), core == WMCore::from(values.to_vec()), case, || json!({"observed": "loaded core differs from the built one"}));
        }
        Ok(Err(e)) => {
            ctx.require(|| "WMCore.load[support-free file]".to_string(), false, case, || json!({"observed": format!("Err({})", e)}));
        }
        Err(msg) => ctx.panic_violation("WMCore.load[support-free file]", &msg, None, case),
    }
}

/// Embedded bitvectors with any SUBSET of their support structures (the supports are optional one by one).
fn sparse_partial(ctx: &mut Ctx, bits: &BitsDesc, mask: u8) {
    let c = Case::SparsePartial { bits: bits.clone(), mask };
    let case = || serde_json::to_value(&c).unwrap();
    ctx.announce(case);
    let m = bits.model();
    let built = sparse_from_model(&m).unwrap();
    let file = spec::rewrite_sparse_supports(&to_bytes(&built), mask).expect("codec: cannot rewrite a library-written sparse file");
    match guard(|| from_bytes::<SparseVector>(&file)) {
        Ok(Ok(sv)) => {
            let q = if m.len <= 64 { Queries::exhaustive(&m) } else { Queries::edges(&m, &[], &[16], 24, m.len <= 100_000) };
            check_bitvec!(ctx, &sv, &m, "SparseVector(file with a subset of supports)", &q, case);
        }
        Ok(Err(e)) => {
            ctx.require(|| "SparseVector.load[file with a subset of supports]".to_string(), false, case, || json!({"observed": format!("Err({})", e)}));
        }
        Err(msg) => ctx.panic_violation("SparseVector.load[file with a subset of supports]", &msg, None, case),
    }
}

fn wm_partial(ctx: &mut Ctx, values: &[u64], masks: &[u8]) {
    let c = Case::WmPartial { values: values.to_vec(), masks: masks.to_vec() };
    let case = || serde_json::to_value(&c).unwrap();
    ctx.announce(case);
    let built = WaveletMatrix::from(values.to_vec());
    let file = spec::rewrite_wm_supports(&to_bytes(&built), masks).expect("codec: cannot rewrite a library-written wavelet matrix file");
    match guard(|| from_bytes::<WaveletMatrix>(&file)) {
        Ok(Ok(wm)) => {
            ctx.expect(|| "WaveletMatrix(file with subsets of supports).iter".to_string(), guard(|| wm.iter().collect::<Vec<u64>>()), &values.to_vec(), case);
            let max = values.iter().copied().max().unwrap_or(0);
            for v in 0..=max + 1 {
                let occ: Vec<usize> = values.iter().enumerate().filter(|(_, &x)| x == v).map(|(i, _)| i).collect();
                for i in 0..=values.len() {
                    ctx.expect(|| "WaveletMatrix(file with subsets of supports).rank".to_string(), guard(|| wm.rank(i, v)), &occ.iter().filter(|&&p| p < i).count(), case);
                }
                for r in 0..=occ.len() {
                    ctx.expect(|| "WaveletMatrix(file with subsets of supports).select".to_string(), guard(|| wm.select(r, v)), &occ.get(r).copied(), case);
                }
                ctx.expect(|| "WaveletMatrix(file with subsets of supports).predecessor".to_string(), guard(|| wm.predecessor(values.len(), v).next()), &occ.last().map(|&p| (occ.len() - 1, p)), case);
            }
        }
        Ok(Err(e)) => {
            ctx.require(|| "WaveletMatrix.load[file with subsets of supports]".to_string(), false, case, || json!({"observed": format!("Err({})", e)}));
        }
        Err(msg) => ctx.panic_violation("WaveletMatrix.load[file with subsets of supports]", &msg, None, case),
    }
}

/// skip_option over [Some(x) or an Option value as serialized, sentinel]: the sentinel is read next.
fn skip(ctx: &mut Ctx, d: &Desc, chunk: usize) {
    let c = Case::Skip { desc: d.clone(), chunk };
    let case = || serde_json::to_value(&c).unwrap();
    ctx.announce(case);
    let x = catalogue::build(d);
    let b = x.bytes();
    let is_opt = format!("{:?}", d).starts_with("Opt");
    let mut stream: Vec<u8> = Vec::new();
    if is_opt {
        stream.extend_from_slice(&b);
    } else {
        stream.extend_from_slice(&((b.len() / 8) as u64).to_le_bytes());
        stream.extend_from_slice(&b);
    }
    let sentinel = 0x5E47_1E1Au64;
    stream.extend_from_slice(&sentinel.to_le_bytes());
    let got = guard(|| {
        let mut r = ShortReader::new(&stream, chunk);
        let res = serialize::skip_option(&mut r);
        let next = u64::load(&mut r).ok();
        (res.is_ok(), next, r.pos)
    });
    ctx.expect(|| "skip_option[moves exactly past the optional]".to_string(), got, &(true, Some(sentinel), stream.len()), case);
}

fn absent(ctx: &mut Ctx) {
    let got = guard(|| {
        let mut v: Vec<u8> = Vec::new();
        let ok = serialize::absent_option(&mut v).is_ok();
        let loaded: Option<Vec<u64>> = from_bytes::<Option<Vec<u64>>>(&v).ok().flatten();
        let mut r = CountingReader::new(&v);
        let skipped = serialize::skip_option(&mut r).is_ok();
        (ok, v.len(), loaded, skipped, r.pos)
    });
    ctx.expect(|| "absent_option".to_string(), got, &(true, 8 * serialize::absent_option_size(), None, true, 8), || json!("absent_option"));
}

fn mapped_walk(ctx: &mut Ctx, bits: &BitsDesc, mask: u8) {
    use simple_sds::int_vector::IntVectorMapper;
    use simple_sds::raw_vector::RawVectorMapper;
    use simple_sds::serialize::{MappedOption, MappedSlice, MappingMode, MemoryMap, MemoryMapped};
    let c = Case::MappedWalk { bits: bits.clone(), mask };
    let case = || json!({"x": c, "call": "walk the mapped file view by view"});
    ctx.announce(|| serde_json::to_value(&c).unwrap());
    ctx.nontrivial(&c);
    let bv = catalogue::bv_with_supports(bits, mask);
    let bytes = to_bytes(&bv);
    let path = ctx.scratch.join("c19-walk.bin");
    std::fs::write(&path, &bytes).expect("scratch file");
    let got = guard(|| {
        let map = MemoryMap::new(&path, MappingMode::ReadOnly).map_err(|e| e.to_string())?;
        // [number of set bits][raw vector][optional rank][optional select][optional select_zero]
        let raw = RawVectorMapper::new(&map, 1).map_err(|e| e.to_string())?;
        let mut at = raw.map_offset() + raw.map_len();
        // The contents of the support structures are implementation-dependent, so the optional parts are viewed
        // through types that assume as little as possible (a plain slice of elements, else an integer vector) and
        // that may well cover LESS than the optional stores: the length of a mapped optional is what its header
        // says, not what the inner view happens to cover. If no view type fits, the header is read directly.
        let mut present = 0u8;
        let mut typed_views = 0usize;
        for k in 0..3u8 {
            let (is_some, next) = if let Ok(o) = MappedOption::<MappedSlice<u64>>::new(&map, at) {
                typed_views += 1;
                (o.is_some(), o.map_offset() + o.map_len())
            } else if let Ok(o) = MappedOption::<IntVectorMapper>::new(&map, at) {
                typed_views += 1;
                (o.is_some(), o.map_offset() + o.map_len())
            } else {
                let size = *map.as_ref().get(at).ok_or_else(|| format!("optional {} starts at {} beyond the end of the file", k, at))? as usize;
                (size > 0, at + 1 + size)
            };
            present |= (is_some as u8) << k;
            at = next;
        }
        let _ = typed_views;
        Ok::<(u8, usize, usize), String>((present, at, map.len()))
    });
    let _ = std::fs::remove_file(&path);
    ctx.expect(|| "BitVector(mapped).walk[supports present, final offset, file length]".to_string(), got, &Ok((mask, bytes.len() / 8, bytes.len() / 8)), case);
}

fn explore(ctx: &mut Ctx) {
    vcore::model::self_check().expect("reference model self-check failed");
    let thorough = ctx.tier.is_thorough();
    let n = ctx.tier.pick(9, 16);
    let mut all: Vec<BitsDesc> = Vec::new();
    for len in 0..=n {
        for word in 0..(1u64 << len) {
            all.push(BitsDesc::Word { len, word });
        }
    }
    {
        use Letter::*;
        all.push(BitsDesc::Letters(vec![Every(3, 200), Zeros(13)]));
        all.push(BitsDesc::Letters(vec![Zeros(511), Ones(2)]));
        all.push(BitsDesc::Letters(vec![Ones(4097), Zeros(3)]));
        all.push(BitsDesc::Letters(vec![Every(3, 5000), Ones(4097)]));
        all.push(BitsDesc::Letters(vec![Every(25000, 5), Zeros(1)]));
        all.push(BitsDesc::Letters(vec![EveryZero(25000, 5), Ones(1)]));
        all.push(BitsDesc::Letters(vec![Zeros(100_000), Every(9, 5), Zeros(99_000)]));
    }
    for bits in &all {
        if ctx.mine(bits) {
            ctx.count("bitvectors", 1);
            ctx.sample_tagged("support-graph", || json!({"bits": bits}));
            graph(ctx, bits, None);
        }
    }
    // The mapped counterpart of skipping optionals: every bitvector of <= 6 bits and the representatives x 8 subsets.
    for bits in all.iter().filter(|b| match b { BitsDesc::Word { len, .. } => *len <= 6, _ => true }) {
        for mask in 0..8u8 {
            let c = Case::MappedWalk { bits: bits.clone(), mask };
            if ctx.mine(&c) {
                ctx.count("mapped_walks", 1);
                mapped_walk(ctx, bits, mask);
            }
        }
    }
    // Sparse vectors from support-free files at every admissible low width (small) and a few widths (large).
    let sn = ctx.tier.pick(8, 14);
    for len in 0..=sn {
        for word in 0..(1u64 << len) {
            let bits = BitsDesc::Word { len, word };
            if !ctx.mine(&("sparse", &bits)) {
                continue;
            }
            for width in 1..=(spec::bit_len(len as u64) + 1) {
                ctx.count("sparse_support_free_files", 1);
                ctx.nontrivial(&("sparse", &bits, width));
                sparse_bare(ctx, &bits, width);
            }
        }
    }
    for bits in [BitsDesc::Letters(vec![Letter::Every(7, 700), Letter::Ones(70)]), BitsDesc::Runs { pairs: vec![(0, 3), (1 << 40, 2), (5, 1)], tail: 1 << 30 }, BitsDesc::Runs { pairs: vec![(100, 30000), (29_000_000, 35536)], tail: 7 }] {
        if ctx.mine(&("sparse", &bits)) {
            for width in [1u64, 2, 5, 8, 13, 20, 33, 40, 63] {
                // the high part must stay allocatable: m + n / 2^w bits
                let m = bits.model();
                if (m.len >> width) > (1u128 << 27) {
                    continue;
                }
                ctx.count("sparse_support_free_files", 1);
                ctx.nontrivial(&("sparse", &bits, width));
                sparse_bare(ctx, &bits, width);
            }
        }
    }
    // Sparse vectors and wavelet matrices whose embedded bitvectors keep every SUBSET of their supports.
    let pn = ctx.tier.pick(5, 7);
    for len in 0..=pn {
        for word in 0..(1u64 << len) {
            let bits = BitsDesc::Word { len, word };
            if !ctx.mine(&("sparse-partial", &bits)) {
                continue;
            }
            for mask in 0..8u8 {
                ctx.count("sparse_files_with_support_subsets", 1);
                ctx.nontrivial(&("sparse-partial", &bits, mask));
                sparse_partial(ctx, &bits, mask);
            }
        }
    }
    for bits in [BitsDesc::Letters(vec![Letter::Every(7, 700), Letter::Ones(70)]), BitsDesc::Runs { pairs: vec![(100, 30000), (29_000_000, 35536)], tail: 7 }] {
        if ctx.mine(&("sparse-partial", &bits)) {
            for mask in 0..8u8 {
                ctx.count("sparse_files_with_support_subsets", 1);
                sparse_partial(ctx, &bits, mask);
            }
        }
    }
    for v in [vec![1u64, 0, 1, 0], vec![3, 1, 4, 1, 5, 9, 2, 6], vec![0, 0, 0], vec![7, 7, 2]] {
        if ctx.mine(&("wm-partial", &v)) {
            for a in 0..8u8 {
                for b in [0u8, 7, a ^ 5] {
                    ctx.count("wm_files_with_support_subsets", 1);
                    ctx.nontrivial(&("wm-partial", &v, a, b));
                    wm_partial(ctx, &v, &[a, b]);
                }
            }
        }
    }
    // Wavelet matrices and cores from support-free files.
    let scopes: Vec<(usize, usize)> = if thorough { vec![(1, 8), (2, 5), (3, 4), (4, 3)] } else { vec![(1, 6), (2, 4), (3, 3), (4, 2)] };
    for (w, l) in scopes {
        vcore::enumr::words(1 << w, l, |word| {
            let v: Vec<u64> = word.iter().map(|&x| x as u64).collect();
            if ctx.mine(&("wm", &v)) {
                ctx.count("wm_support_free_files", 1);
                ctx.nontrivial(&("wm", &v));
                wm_bare(ctx, &v);
            }
        });
    }
    for v in [vec![0u64, 65535, 1, 32768], vec![9, 9, 9], (0..300u64).map(|i| i * 7 % 11).collect::<Vec<u64>>()] {
        if ctx.mine(&("wm", &v)) {
            wm_bare(ctx, &v);
        }
    }
    // skip_option over every catalogue value, through readers with several chunk sizes.
    for d in catalogue::catalogue(thorough, ctx.seed_pattern()) {
        if ctx.mine(&("skip", &d)) {
            for chunk in [1usize, 3, 7, 8, 9, 4095, usize::MAX] {
                ctx.count("skip_option_cases", 1);
                ctx.nontrivial(&("skip", &d, chunk));
                skip(ctx, &d, chunk);
            }
        }
    }
    if ctx.mine_index(0) {
        absent(ctx);
    }
}

fn replay(ctx: &mut Ctx, v: &Value) {
    let inner = if v.get("x").is_some() { &v["x"] } else if v.get("bv").is_some() { &v["bv"] } else { v };
    if inner.as_str() == Some("absent_option") {
        absent(ctx);
        return;
    }
    let c: Case = serde_json::from_value(inner.clone()).expect("replay: not a C19 case");
    match c {
        Case::Graph { bits, path } => graph(ctx, &bits, Some(&path)),
        Case::SparseBare { bits, width } => sparse_bare(ctx, &bits, width),
        Case::WmBare { values } => wm_bare(ctx, &values),
        Case::SparsePartial { bits, mask } => sparse_partial(ctx, &bits, mask),
        Case::WmPartial { values, masks } => wm_partial(ctx, &values, &masks),
        Case::Skip { desc, chunk } => skip(ctx, &desc, chunk),
        Case::MappedWalk { bits, mask } => mapped_walk(ctx, &bits, mask),
    }
}

fn main() {
    let _ = |x: &WaveletMatrix| x.width();
    vcore::run_driver("C19", explore, replay, hook_hits);
}
