//! C17 — bit-level primitives are exact at every offset, width and word pattern.
//! E-input: every (offset, width) field of a 4-word array x value x background for
//! `write_int`/`read_int`; every rank of structured word families for `select`; the mask,
//! bit-length, bit-reversal, rounding and offset helpers over boundary sets inside their
//! documented domains. All reference answers are computed bit by bit (or in u128) in this file.

use drivers::*;
use serde::{Deserialize, Serialize};
use simple_sds::bits;
use std::collections::HashSet;

const MAXU: u128 = usize::MAX as u128;
const ARRAY_WORDS: usize = 4;
const ARRAY_BITS: usize = 256;
const LAST_OFFSET: usize = 191;

#[derive(Serialize, Deserialize, Clone, Debug, Hash)]
enum Case {
    /// `write_int(background, offset, value, width)`, then `read_int` of the same field.
    WriteRead { offset: usize, width: usize, value: u64, background: [u64; 4] },
    /// `read_int(array, offset, width)` on an array that was never written by the library.
    Read { offset: usize, width: usize, array: [u64; 4] },
    Select { word: u64, rank: usize },
    Helper { name: String, args: Vec<u64> },
}

/// Hexadecimal rendering of an array in violation details.
#[derive(PartialEq)]
struct Hx([u64; 4]);

impl std::fmt::Debug for Hx {
    fn fmt(&self, f: &mut std::fmt::Formatter<'_>) -> std::fmt::Result {
        write!(f, "[{:#018X}, {:#018X}, {:#018X}, {:#018X}]", self.0[0], self.0[1], self.0[2], self.0[3])
    }
}

//-----------------------------------------------------------------------------
// Regime counters kept locally (flushed once; `ctx.count` allocates per call).

#[derive(Default)]
struct Reg {
    /// Thorough tier: distinct cases are counted by construction instead of by hash.
    by_construction: bool,
    nontrivial_bc: u64,
    wr_cases: u64,
    wr_single: u64,
    wr_straddle: u64,
    wr_width64: u64,
    wr_word_aligned: u64,
    wr_straddle_at: [u64; 3],
    wr_nontrivial: u64,
    rd_cases: u64,
    rd_single: u64,
    rd_straddle: u64,
    rd_nontrivial: u64,
    sel_words: u64,
    sel_words_without_rank: u64,
    sel_pairs: u64,
    sel_popcount_max: u64,
}

impl Reg {
    fn flush(&self, ctx: &mut Ctx) {
        ctx.count("write_read_cases", self.wr_cases);
        ctx.count("write_read_cases[single-word branch]", self.wr_single);
        ctx.count("write_read_cases[straddling branch]", self.wr_straddle);
        ctx.count("write_read_cases[width 64]", self.wr_width64);
        ctx.count("write_read_cases[word-aligned offset]", self.wr_word_aligned);
        ctx.count("write_read_cases[straddle words 0/1]", self.wr_straddle_at[0]);
        ctx.count("write_read_cases[straddle words 1/2]", self.wr_straddle_at[1]);
        ctx.count("write_read_cases[straddle words 2/3]", self.wr_straddle_at[2]);
        ctx.count("write_read_cases[nontrivial]", self.wr_nontrivial);
        ctx.count("background_read_cases", self.rd_cases);
        ctx.count("background_read_cases[single-word branch]", self.rd_single);
        ctx.count("background_read_cases[straddling branch]", self.rd_straddle);
        ctx.count("background_read_cases[nontrivial]", self.rd_nontrivial);
        ctx.count("select_words", self.sel_words);
        ctx.count("select_words_without_valid_rank", self.sel_words_without_rank);
        ctx.count("select_pairs(word,rank)", self.sel_pairs);
        ctx.count_max("select_popcount_max", self.sel_popcount_max);
        if self.by_construction {
            ctx.nontrivial_by_construction(self.nontrivial_bc);
        }
    }
}

fn mark_nontrivial(ctx: &mut Ctx, reg: &mut Reg, c: &Case) {
    if reg.by_construction {
        reg.nontrivial_bc += 1;
    } else {
        ctx.nontrivial(c);
    }
}

//-----------------------------------------------------------------------------
// Naive references.

fn ref_bit(x: u64, i: usize) -> bool {
    (x >> i) & 1 == 1
}

/// Lowest `n` bits set, n in 0..=64.
fn ref_low(n: usize) -> u64 {
    let mut x = 0u64;
    for i in 0..n {
        x |= 1u64 << i;
    }
    x
}

/// Highest `n` bits set, n in 0..=64.
fn ref_high(n: usize) -> u64 {
    let mut x = 0u64;
    for i in 0..n {
        x |= 1u64 << (63 - i);
    }
    x
}

fn ref_bit_len(n: u64) -> usize {
    let mut len = 1;
    for i in 0..64 {
        if ref_bit(n, i) {
            len = i + 1;
        }
    }
    len
}

fn ref_reverse_low(n: u64, bits: usize) -> u64 {
    let mut x = 0u64;
    for i in 0..bits {
        if ref_bit(n, i) {
            x |= 1u64 << (bits - 1 - i);
        }
    }
    x
}

fn ref_truncate(value: u64, width: usize) -> u64 {
    let mut x = 0u64;
    for i in 0..width {
        if ref_bit(value, i) {
            x |= 1u64 << i;
        }
    }
    x
}

fn ref_write(array: &[u64; 4], offset: usize, value: u64, width: usize) -> [u64; 4] {
    let mut a = *array;
    for i in 0..width {
        let p = offset + i;
        if ref_bit(value, i) {
            a[p / 64] |= 1u64 << (p % 64);
        } else {
            a[p / 64] &= !(1u64 << (p % 64));
        }
    }
    a
}

fn ref_read(array: &[u64; 4], offset: usize, width: usize) -> u64 {
    let mut x = 0u64;
    for i in 0..width {
        let p = offset + i;
        if ref_bit(array[p / 64], p % 64) {
            x |= 1u64 << i;
        }
    }
    x
}

/// Positions of the set bits in increasing order, and their number.
fn ref_positions(word: u64) -> ([usize; 64], usize) {
    let mut pos = [0usize; 64];
    let mut n = 0;
    for i in 0..64 {
        if ref_bit(word, i) {
            pos[n] = i;
            n += 1;
        }
    }
    (pos, n)
}

fn ceil_div(value: u128, n: u128) -> u128 {
    value / n + if value % n != 0 { 1 } else { 0 }
}

//-----------------------------------------------------------------------------
// write_int / read_int

fn field_in_array(offset: usize, width: usize) {
    assert!((1..=64).contains(&width) && offset + width <= ARRAY_BITS, "harness: field (offset {}, width {}) outside the 4-word array", offset, width);
}

fn check_write(ctx: &mut Ctx, reg: &mut Reg, offset: usize, width: usize, value: u64, background: [u64; 4]) {
    field_in_array(offset, width);
    let straddle = offset % 64 + width > 64;
    let class = if straddle { "straddle" } else { "single" };
    let c = Case::WriteRead { offset, width, value, background };
    let case = || serde_json::to_value(&c).unwrap();
    ctx.announce(case);
    ctx.sample_tagged("write_read", case);

    reg.wr_cases += 1;
    if straddle {
        reg.wr_straddle += 1;
        reg.wr_straddle_at[offset / 64] += 1;
    } else {
        reg.wr_single += 1;
    }
    if width == 64 {
        reg.wr_width64 += 1;
    }
    if offset % 64 == 0 {
        reg.wr_word_aligned += 1;
    }
    if straddle || background != [0u64; 4] {
        reg.wr_nontrivial += 1;
        mark_nontrivial(ctx, reg, &c);
    }

    let want = ref_write(&background, offset, value, width);
    let truncated = ref_truncate(value, width);

    // 1. The array after the write: the field holds the truncated value, every other bit is unchanged.
    let written = guard(|| {
        let mut a: Vec<u64> = background.to_vec();
        unsafe { bits::write_int(&mut a, offset, value, width) };
        a
    });
    match written {
        Err(msg) => {
            ctx.evals += 1;
            ctx.panic_violation(&format!("bits.write_int[{}]", class), &msg, Some(format!("{:?}", Hx(want))), case);
        }
        Ok(a) => {
            let same = a.len() == ARRAY_WORDS && a[..] == want[..];
            ctx.require(|| format!("bits.write_int[{}]", class), same, case, || {
                let mut field_bits_wrong = 0;
                let mut other_bits_changed = 0;
                for p in 0..ARRAY_BITS.min(a.len() * 64) {
                    if ref_bit(a[p / 64], p % 64) != ref_bit(want[p / 64], p % 64) {
                        if p >= offset && p < offset + width { field_bits_wrong += 1 } else { other_bits_changed += 1 }
                    }
                }
                let observed: Vec<String> = a.iter().map(|w| format!("{:#018X}", w)).collect();
                json!({"observed": observed, "expected": format!("{:?}", Hx(want)), "field_bits_wrong": field_bits_wrong, "other_bits_changed": other_bits_changed, "array_words": a.len()})
            });
            // 2. Reading the field back from the array the library wrote.
            ctx.expect(|| format!("bits.write_int+read_int[{}]", class), guard(|| unsafe { bits::read_int(&a, offset, width) }), &truncated, case);
        }
    }

    // 3. Reading the field from the reference array (isolates read_int from write_int).
    let r: Vec<u64> = want.to_vec();
    ctx.expect(|| format!("bits.read_int[{}]", class), guard(|| unsafe { bits::read_int(&r, offset, width) }), &truncated, case);
}

fn check_read(ctx: &mut Ctx, reg: &mut Reg, offset: usize, width: usize, array: [u64; 4]) {
    field_in_array(offset, width);
    let straddle = offset % 64 + width > 64;
    let class = if straddle { "straddle" } else { "single" };
    let c = Case::Read { offset, width, array };
    let case = || serde_json::to_value(&c).unwrap();
    ctx.announce(case);
    ctx.sample_tagged("background_read", case);
    reg.rd_cases += 1;
    if straddle { reg.rd_straddle += 1 } else { reg.rd_single += 1 }
    if straddle || array != [0u64; 4] {
        reg.rd_nontrivial += 1;
        mark_nontrivial(ctx, reg, &c);
    }
    let want = ref_read(&array, offset, width);
    let a: Vec<u64> = array.to_vec();
    ctx.expect(|| format!("bits.read_int[{}]", class), guard(|| unsafe { bits::read_int(&a, offset, width) }), &want, case);
}

fn dedup_keep_order(v: Vec<u64>) -> Vec<u64> {
    let mut seen: HashSet<u64> = HashSet::new(); // membership only; the order comes from `v`
    v.into_iter().filter(|x| seen.insert(*x)).collect()
}

fn dedup_arrays(v: Vec<[u64; 4]>) -> Vec<[u64; 4]> {
    let mut seen: HashSet<[u64; 4]> = HashSet::new();
    v.into_iter().filter(|x| seen.insert(*x)).collect()
}

fn write_values(ctx: &Ctx) -> Vec<u64> {
    // ... incl. values that are non-zero but zero within narrow fields (even, or only the top bit set)
    let mut v = vec![0u64, !0u64, 0xA5A5_A5A5_A5A5_A5A5, 0x0123_4567_89AB_CDEF, ctx.seed_pattern(), !1u64, 2, 1u64 << 63];
    if ctx.tier.is_thorough() {
        for k in 0..64 {
            v.push(1u64 << k);
        }
        for k in 0..64 {
            v.push(!(1u64 << k));
        }
    }
    dedup_keep_order(v)
}

fn backgrounds(ctx: &Ctx) -> Vec<[u64; 4]> {
    let s = ctx.seed_pattern();
    let rotated = [s, s.rotate_left(13), s.rotate_left(26), s.rotate_left(39)];
    let mut v = vec![[0u64; 4], [!0u64; 4], [0xAAAA_AAAA_AAAA_AAAA; 4], rotated];
    if ctx.tier.is_thorough() {
        v.push([0x5555_5555_5555_5555; 4]);
        v.push([!rotated[0], !rotated[1], !rotated[2], !rotated[3]]);
    }
    dedup_arrays(v)
}

fn explore_write_read(ctx: &mut Ctx, reg: &mut Reg) {
    let values = write_values(ctx);
    let bgs = backgrounds(ctx);
    ctx.note("write_value_alphabet_size", values.len());
    ctx.note("background_alphabet_size", bgs.len());
    for offset in 0..=LAST_OFFSET {
        for width in 1..=64usize {
            if !ctx.mine(&("write_read", offset, width)) {
                continue;
            }
            for bg in &bgs {
                check_read(ctx, reg, offset, width, *bg);
                for &value in &values {
                    check_write(ctx, reg, offset, width, value, *bg);
                }
            }
        }
    }
}

//-----------------------------------------------------------------------------
// select

fn words_with_bits(k: usize, out: &mut Vec<u64>) {
    fn rec(start: usize, left: usize, cur: u64, out: &mut Vec<u64>) {
        if left == 0 {
            out.push(cur);
            return;
        }
        for i in start..=(64 - left) {
            rec(i + 1, left - 1, cur | (1u64 << i), out);
        }
    }
    rec(0, k, 0, out);
}

/// The deduplicated word list, simplest family first, and the sizes of the families.
fn select_words(ctx: &Ctx) -> (Vec<u64>, Vec<(String, usize)>) {
    let mut sizes: Vec<(String, usize)> = Vec::new();
    let mut base: Vec<u64> = Vec::new();
    let max_bits = ctx.tier.pick(4, 5);
    for k in 0..=max_bits {
        words_with_bits(k, &mut base);
    }
    sizes.push((format!("words_with_at_most_{}_set_bits", max_bits), base.len()));
    let n = base.len();
    for p in 0..8 {
        for b in 0..=255u64 {
            for f in [0x00u64, 0xFF, 0x55, 0xAA] {
                let mut w = 0u64;
                for q in 0..8 {
                    w |= (if q == p { b } else { f }) << (8 * q);
                }
                base.push(w);
            }
        }
    }
    sizes.push(("byte_position_x_byte_value_x_fill".to_string(), base.len() - n));
    let mut all = base.clone();
    all.extend(base.iter().map(|w| !w));
    sizes.push(("complements".to_string(), base.len()));
    let n = all.len();
    for len in 1..=64usize {
        let run = ref_low(len);
        let mut shift = 0;
        while shift < 64 {
            all.push(run << shift);
            shift += 7;
        }
    }
    sizes.push(("runs_shifted_by_multiples_of_7".to_string(), all.len() - n));
    all.push(ctx.seed_pattern());
    all.push(!ctx.seed_pattern());
    sizes.push(("seed_pattern_and_complement".to_string(), 2));
    let all = dedup_keep_order(all);
    sizes.push(("distinct_words".to_string(), all.len()));
    (all, sizes)
}

/// Checks `select(word, rank)` for one rank (replay) or for every rank below the popcount.
fn check_select(ctx: &mut Ctx, reg: &mut Reg, word: u64, only: Option<usize>) {
    let (pos, pop) = ref_positions(word);
    let ranks = match only {
        Some(r) => {
            assert!(r < pop, "harness: select({:#X}, {}) is outside the domain (rank >= popcount)", word, r);
            r..r + 1
        }
        None => 0..pop,
    };
    reg.sel_words += 1;
    if pop == 0 {
        reg.sel_words_without_rank += 1;
    }
    reg.sel_popcount_max = reg.sel_popcount_max.max(pop as u64);
    if pop > 0 {
        ctx.sample_tagged("select", || serde_json::to_value(Case::Select { word, rank: ranks.end - 1 }).unwrap());
    }
    for rank in ranks {
        let c = Case::Select { word, rank };
        let case = || serde_json::to_value(&c).unwrap();
        ctx.announce(case);
        reg.sel_pairs += 1;
        mark_nontrivial(ctx, reg, &c);
        let class = if pop == 1 { "only" } else if rank == 0 { "first" } else if rank == pop - 1 { "last" } else { "mid" };
        ctx.expect(|| format!("bits.select[{}]", class), guard(|| unsafe { bits::select(word, rank) }), &pos[rank], case);
    }
}

/// Coverage of the enumerated (word, rank) space as a whole (all shards), computed from the
/// reference only: which (rank within byte, byte value) pairs and which (byte index, set bits in
/// lower bytes) pairs occur. Of the 2048 entries of the in-byte table 1024 are meaningful.
fn select_coverage(ctx: &mut Ctx, words: &[u64]) {
    let mut in_byte = vec![false; 8 * 256];
    let mut prefix = vec![false; 8 * 65];
    let mut ranks_seen = 0u64;
    let mut answers_seen = 0u64;
    for &w in words {
        let (pos, pop) = ref_positions(w);
        let mut before = [0usize; 9];
        for &p in pos.iter().take(pop) {
            before[p / 8 + 1] += 1;
        }
        for b in 0..8 {
            before[b + 1] += before[b];
        }
        for rank in 0..pop {
            let byte_index = pos[rank] / 8;
            let byte = ((w >> (8 * byte_index)) & 0xFF) as usize;
            in_byte[(rank - before[byte_index]) * 256 + byte] = true;
            prefix[byte_index * 65 + before[byte_index]] = true;
            ranks_seen |= 1u64 << rank;
            answers_seen |= 1u64 << pos[rank];
        }
    }
    let meaningful: usize = (0..256u64).map(|b| ref_positions(b).1).sum();
    ctx.note("select_space_coverage", format!("in-byte (relative rank, byte value) pairs: {} of {}", in_byte.iter().filter(|x| **x).count(), meaningful));
    ctx.note("select_space_coverage", format!("(answer byte, set bits in lower bytes) pairs: {}", prefix.iter().filter(|x| **x).count()));
    ctx.note("select_space_coverage", format!("distinct ranks: {}, distinct answers: {}", ref_positions(ranks_seen).1, ref_positions(answers_seen).1));
}

fn explore_select(ctx: &mut Ctx, reg: &mut Reg) {
    let (words, sizes) = select_words(ctx);
    for (name, n) in &sizes {
        ctx.note("select_word_families", format!("{}={}", name, n));
    }
    select_coverage(ctx, &words);
    for &word in &words {
        if ctx.mine(&("select", word)) {
            check_select(ctx, reg, word, None);
        }
    }
    ctx.note("select_path", select_path());
}

//-----------------------------------------------------------------------------
// Helpers

/// Largest argument inside the documented domain of the one-argument rounding helpers.
fn unary_limit(name: &str) -> Option<u128> {
    match name {
        "words_to_bytes" => Some(MAXU / 8),
        "bytes_to_words" | "round_up_to_word_bytes" => Some(MAXU - 7),
        "words_to_bits" => Some(MAXU / 64),
        "bits_to_words" | "round_up_to_word_bits" => Some(MAXU - 63),
        _ => None,
    }
}

const UNARY: [&str; 6] = ["words_to_bytes", "bytes_to_words", "round_up_to_word_bytes", "words_to_bits", "bits_to_words", "round_up_to_word_bits"];

fn unary_ref(name: &str, n: u128) -> u128 {
    match name {
        "words_to_bytes" => n * 8,
        "bytes_to_words" => ceil_div(n, 8),
        "round_up_to_word_bytes" => ceil_div(n, 8) * 8,
        "words_to_bits" => n * 64,
        "bits_to_words" => ceil_div(n, 64),
        "round_up_to_word_bits" => ceil_div(n, 64) * 64,
        _ => unreachable!(),
    }
}

fn unary_lib(name: &str, n: usize) -> usize {
    match name {
        "words_to_bytes" => bits::words_to_bytes(n),
        "bytes_to_words" => bits::bytes_to_words(n),
        "round_up_to_word_bytes" => bits::round_up_to_word_bytes(n),
        "words_to_bits" => bits::words_to_bits(n),
        "bits_to_words" => bits::bits_to_words(n),
        "round_up_to_word_bits" => bits::round_up_to_word_bits(n),
        _ => unreachable!(),
    }
}

/// Input class of an argument relative to the end of the domain.
fn magnitude(x: u128, limit: u128) -> &'static str {
    if x == limit {
        "limit"
    } else if x < (1u128 << 32) {
        "small"
    } else {
        "large"
    }
}

fn to_usize(x: u128) -> usize {
    assert!(x <= MAXU, "harness: reference value {} does not fit in usize", x);
    x as usize
}

/// Runs exactly one helper case. The arguments must be inside the documented domain.
fn check_helper(ctx: &mut Ctx, name: &str, args: &[u64]) {
    let case = || serde_json::to_value(Case::Helper { name: name.to_string(), args: args.to_vec() }).unwrap();
    ctx.announce(case);
    ctx.sample_tagged(name, case);
    ctx.count(&format!("helper_cases[{}]", name), 1);
    let a0 = args[0];
    match name {
        "low_set" | "low_set_unchecked" | "high_set" | "high_set_unchecked" => {
            let n = a0 as usize;
            assert!(n <= 64, "harness: {}({}) is outside the domain", name, n);
            let (want, got) = match name {
                "low_set" => (ref_low(n), guard(|| bits::low_set(n))),
                "low_set_unchecked" => (ref_low(n), guard(|| unsafe { bits::low_set_unchecked(n) })),
                "high_set" => (ref_high(n), guard(|| bits::high_set(n))),
                _ => (ref_high(n), guard(|| unsafe { bits::high_set_unchecked(n) })),
            };
            ctx.expect(|| format!("bits.{}", name), got, &want, case);
        }
        "bit_len" => {
            ctx.expect(|| "bits.bit_len".to_string(), guard(|| bits::bit_len(a0)), &ref_bit_len(a0), case);
        }
        "reverse_low" => {
            let width = args[1] as usize;
            assert!((1..=64).contains(&width), "harness: reverse_low(_, {}) is outside the domain", width);
            let class = if width == 64 { "w64" } else if width == 1 { "w1" } else { "w2..63" };
            ctx.expect(|| format!("bits.reverse_low[{}]", class), guard(|| bits::reverse_low(a0, width)), &ref_reverse_low(a0, width), case);
        }
        "filler_value" => {
            let bit = a0 != 0;
            let want = if bit { ref_low(64) } else { 0 };
            ctx.expect(|| "bits.filler_value".to_string(), guard(|| bits::filler_value(bit)), &want, case);
        }
        "div_round_up" => {
            let (value, n) = (a0 as u128, args[1] as u128);
            assert!(n > 0 && value + n <= MAXU, "harness: div_round_up({}, {}) is outside the domain", value, n);
            let want = to_usize(ceil_div(value, n));
            let class = if value + n == MAXU { "limit" } else if n == 1 { "n=1" } else if value < n { "value<n" } else { "value>=n" };
            ctx.expect(|| format!("bits.div_round_up[{}]", class), guard(|| bits::div_round_up(value as usize, n as usize)), &want, case);
        }
        "split_offset" => {
            let want = ((a0 as u128 / 64) as usize, (a0 as u128 % 64) as usize);
            ctx.expect(|| format!("bits.split_offset[{}]", magnitude(a0 as u128, MAXU)), guard(|| bits::split_offset(a0 as usize)), &want, case);
        }
        "bit_offset" => {
            let (index, offset) = (a0 as u128, args[1] as u128);
            assert!(offset < 64 && index * 64 + offset <= MAXU, "harness: bit_offset({}, {}) is outside the domain", index, offset);
            let want = to_usize(index * 64 + offset);
            ctx.expect(|| format!("bits.bit_offset[{}]", magnitude(index, MAXU / 64)), guard(|| bits::bit_offset(index as usize, offset as usize)), &want, case);
        }
        "offset_round_trip" => {
            // bit offset -> (index, offset) -> bit offset
            let x = a0 as usize;
            let got = guard(|| {
                let (index, offset) = bits::split_offset(x);
                bits::bit_offset(index, offset)
            });
            ctx.expect(|| format!("bits.split_offset+bit_offset[{}]", magnitude(a0 as u128, MAXU)), got, &x, case);
        }
        "index_round_trip" => {
            // (index, offset) -> bit offset -> (index, offset)
            let (index, offset) = (a0 as usize, args[1] as usize);
            assert!(offset < 64 && (index as u128) * 64 + (offset as u128) <= MAXU, "harness: bit_offset({}, {}) is outside the domain", index, offset);
            let got = guard(|| bits::split_offset(bits::bit_offset(index, offset)));
            ctx.expect(|| format!("bits.bit_offset+split_offset[{}]", magnitude(index as u128, MAXU / 64)), got, &(index, offset), case);
        }
        _ => {
            let limit = unary_limit(name).unwrap_or_else(|| panic!("harness: unknown helper {}", name));
            let n = a0 as u128;
            assert!(n <= limit, "harness: {}({}) is outside the domain", name, n);
            let want = to_usize(unary_ref(name, n));
            ctx.expect(|| format!("bits.{}[{}]", name, magnitude(n, limit)), guard(|| unary_lib(name, n as usize)), &want, case);
        }
    }
}

/// The boundary set of the design, every power of two with its neighbours, and the values at and
/// just below `limit` (the end of the documented domain); nothing above `limit`.
fn boundary_values(limit: u128) -> Vec<u64> {
    let mut v: Vec<u128> = vec![0, 1, 7, 8, 9, 63, 64, 65, 127, 128, 129, (1 << 32) - 1, 1 << 32, (1 << 32) + 1, 1 << 57];
    for k in 0..64 {
        let p = 1u128 << k;
        v.extend([p - 1, p, p + 1]);
    }
    for d in (0..=9u128).chain([63, 64, 65, 127, 128, 129]) {
        if limit >= d {
            v.push(limit - d);
        }
    }
    v.retain(|x| *x <= limit);
    v.sort_unstable();
    v.dedup();
    v.into_iter().map(|x| x as u64).collect()
}

fn explore_helpers(ctx: &mut Ctx) {
    let seed = ctx.seed_pattern();
    let mut index = 0u64;
    let mut run = |ctx: &mut Ctx, name: &str, args: &[u64]| {
        if ctx.mine_index(index) {
            check_helper(ctx, name, args);
        }
        index += 1;
    };

    for n in 0..=64u64 {
        for name in ["low_set", "low_set_unchecked", "high_set", "high_set_unchecked"] {
            run(ctx, name, &[n]);
        }
    }

    let mut v: Vec<u64> = vec![0, u64::MAX, seed];
    for k in 0..64 {
        let p = 1u64 << k;
        v.extend([p, p - 1, p.wrapping_add(1)]);
    }
    v.sort_unstable();
    v.dedup();
    for &n in &v {
        run(ctx, "bit_len", &[n]);
    }

    for width in 1..=64usize {
        let low = ref_low(width);
        let above = !low;
        let mut v: Vec<u64> = vec![0, low, !0u64, above, 0xAAAA_AAAA_AAAA_AAAA, 0x5555_5555_5555_5555, seed, !seed];
        for k in 0..width {
            v.push(1u64 << k);
            v.push((1u64 << k) | above);
        }
        for n in dedup_keep_order(v) {
            run(ctx, "reverse_low", &[n, width as u64]);
        }
    }

    run(ctx, "filler_value", &[0]);
    run(ctx, "filler_value", &[1]);

    for name in UNARY {
        for n in boundary_values(unary_limit(name).unwrap()) {
            run(ctx, name, &[n]);
        }
    }

    for n in boundary_values(MAXU) {
        if n == 0 {
            continue;
        }
        for value in boundary_values(MAXU - n as u128) {
            run(ctx, "div_round_up", &[value, n]);
        }
    }

    // Offsets: the boundary set up to usize::MAX and the neighbourhood of multiples of 64.
    let indexes = boundary_values(MAXU / 64);
    let mut offsets: Vec<u64> = boundary_values(MAXU);
    for &j in &indexes {
        let m = j * 64;
        offsets.extend([m.saturating_sub(1), m, m + 1, m + 62, m + 63]);
    }
    offsets.sort_unstable();
    offsets.dedup();
    for &x in &offsets {
        run(ctx, "split_offset", &[x]);
        run(ctx, "offset_round_trip", &[x]);
    }
    for &j in &indexes {
        for o in [0u64, 1, 31, 32, 62, 63] {
            run(ctx, "bit_offset", &[j, o]);
            run(ctx, "index_round_trip", &[j, o]);
        }
    }
}

//-----------------------------------------------------------------------------

fn explore(ctx: &mut Ctx) {
    let mut reg = Reg { by_construction: ctx.tier.is_thorough(), ..Reg::default() };
    explore_write_read(ctx, &mut reg);
    explore_select(ctx, &mut reg);
    explore_helpers(ctx);
    reg.flush(ctx);
}

fn replay(ctx: &mut Ctx, v: &Value) {
    let c: Case = serde_json::from_value(v.clone()).expect("replay: not a C17 case");
    let mut reg = Reg::default();
    match c {
        Case::WriteRead { offset, width, value, background } => check_write(ctx, &mut reg, offset, width, value, background),
        Case::Read { offset, width, array } => check_read(ctx, &mut reg, offset, width, array),
        Case::Select { word, rank } => check_select(ctx, &mut reg, word, Some(rank)),
        Case::Helper { name, args } => check_helper(ctx, &name, &args),
    }
    ctx.note("select_path", select_path());
}

fn main() {
    vcore::run_driver("C17", explore, replay, hook_hits);
}
