//! C09 — queries are total: out-of-range and extreme arguments give the documented answer.
//! E-input: all three bitvector types for every small bit sequence and multi-block
//! representatives, every argument position fed with A(.) = {0, 1, n-1, n, n+1, 2n, 2^63, MAX-1, MAX};
//! Iterator::nth / nth_back beyond the remainder; wavelet matrix and core mapping; constructors.

use drivers::catalogue::BitsDesc;
use drivers::wmcheck;
use drivers::*;
use serde::{Deserialize, Serialize};
use simple_sds::int_vector::{IntVector, IntVectorWriter};
use simple_sds::ops::{Access, BitVec, Select, SelectZero, VectorIndex};
use simple_sds::rl_vector::RLBuilder;
use simple_sds::sparse_vector::{SparseBuilder, SparseVector};
use simple_sds::ops::{PredSucc, Rank};
use simple_sds::wavelet_matrix::wm_core::WMCore;
use simple_sds::wavelet_matrix::WaveletMatrix;
use std::fmt::Debug;
use vcore::enumr::{self, Letter};

#[derive(Serialize, Deserialize, Clone, Debug, Hash)]
enum Case {
    Bits(BitsDesc),
    Wm(Vec<u64>),
    Constructors,
}

/// nth(k) for k in A(remaining) after 0, 1, 2 consumed items; then the iterator must continue
/// right after the returned item, or be exhausted.
fn check_nth<I, T>(ctx: &mut Ctx, name: &str, make: impl Fn() -> I, reference: &[T], exact: bool, case: &dyn Fn() -> Value)
where
    I: Iterator<Item = T>,
    T: PartialEq + Debug + Clone,
{
    let n = reference.len();
    for consumed in 0..=2usize.min(n) {
        let remaining = n - consumed;
        for k in boundary_args(remaining) {
            let got = guard(|| {
                let mut it = make();
                for _ in 0..consumed {
                    it.next();
                }
                let a = it.nth(k);
                let len_after = if exact { Some(it.size_hint()) } else { None };
                let b = it.next();
                let c = it.next();
                (a, b, c, len_after)
            });
            let idx = consumed.checked_add(k);
            let at = |i: Option<usize>| i.and_then(|i| reference.get(i).cloned());
            let a = at(idx);
            let (b, c) = if a.is_some() { (at(idx.map(|i| i + 1)), at(idx.map(|i| i + 2))) } else { (None, None) };
            let len_after = if exact { let r = if a.is_some() { n - idx.unwrap() - 1 } else { 0 }; Some((r, Some(r))) } else { None };
            ctx.expect(|| format!("{}.nth[{}]", name, arg_class(k, remaining)), got, &(a, b, c, len_after), || json!({"x": case(), "call": format!("{}: {} x next(), nth({}), [size_hint()], next(), next()", name, consumed, k)}));
        }
    }
}

fn check_nth_back<I, T>(ctx: &mut Ctx, name: &str, make: impl Fn() -> I, reference: &[T], case: &dyn Fn() -> Value)
where
    I: DoubleEndedIterator<Item = T> + ExactSizeIterator,
    T: PartialEq + Debug + Clone,
{
    let n = reference.len();
    for consumed in 0..=2usize.min(n) {
        let remaining = n - consumed;
        for k in boundary_args(remaining) {
            let got = guard(|| {
                let mut it = make();
                for _ in 0..consumed {
                    it.next();
                }
                let a = it.nth_back(k);
                let len_after = it.len();
                let b = it.next_back();
                let c = it.next();
                (a, len_after, b, c)
            });
            // Items consumed from the back: k skipped + 1 returned.
            let (a, len_after, b, c) = if k < remaining {
                let pos = n - 1 - k;
                let left = pos - consumed; // items remaining between the cursors
                let b = if left > 0 { Some(reference[pos - 1].clone()) } else { None };
                let c = if left > 1 { Some(reference[consumed].clone()) } else { None };
                (Some(reference[pos].clone()), left, b, c)
            } else {
                (None, 0, None, None)
            };
            ctx.expect(|| format!("{}.nth_back[{}]", name, arg_class(k, remaining)), got, &(a, len_after, b, c), || json!({"x": case(), "call": format!("{}: {} x next(), nth_back({}), len(), next_back(), next()", name, consumed, k)}));
        }
    }
}

/// nth(k) after items were consumed from BOTH ends: `front` x next(), `back` x next_back(), then nth(k)
/// for k in A(remaining).
fn check_nth_after_back<I, T>(ctx: &mut Ctx, name: &str, make: impl Fn() -> I, reference: &[T], case: &dyn Fn() -> Value)
where
    I: DoubleEndedIterator<Item = T> + ExactSizeIterator,
    T: PartialEq + Debug + Clone,
{
    let n = reference.len();
    for front in 0..=1usize.min(n) {
        for back in 1..=2usize {
            if front + back > n {
                continue;
            }
            let remaining = n - front - back;
            for k in boundary_args(remaining) {
                let got = guard(|| {
                    let mut it = make();
                    for _ in 0..front {
                        it.next();
                    }
                    for _ in 0..back {
                        it.next_back();
                    }
                    let a = it.nth(k);
                    let len_after = it.len();
                    let b = it.next();
                    (a, len_after, b)
                });
                let (a, len_after, b) = if k < remaining {
                    let pos = front + k;
                    let left = remaining - k - 1;
                    (Some(reference[pos].clone()), left, if left > 0 { Some(reference[pos + 1].clone()) } else { None })
                } else {
                    (None, 0, None)
                };
                ctx.expect(|| format!("{}.nth[{},after next_back]", name, arg_class(k, remaining)), got, &(a, len_after, b), || json!({"x": case(), "call": format!("{}: {} x next(), {} x next_back(), nth({}), len(), next()", name, front, back, k)}));
            }
        }
    }
}

fn check_bits(ctx: &mut Ctx, d: &BitsDesc) {
    let m = d.model();
    let c = Case::Bits(d.clone());
    let case = || serde_json::to_value(&c).unwrap();
    ctx.announce(case);
    let small = m.len <= 64;
    ctx.sample_tagged(if small { "small-scope" } else { "representatives" }, case);
    ctx.nontrivial(d);
    let q = if small { Queries::exhaustive(&m) } else { Queries::edges(&m, &[64, 512], &[64, 4096], 30, m.len <= 300_000) };
    let ones: Vec<(usize, usize)> = m.positions().into_iter().enumerate().map(|(r, p)| (r, p as usize)).collect();
    let zeros: Vec<(usize, usize)> = m.zero_positions().into_iter().enumerate().map(|(r, p)| (r, p as usize)).collect();
    let bools = m.to_bools();

    // Plain bitvector.
    match guard(|| bv_from_model(&m)) {
        Ok(bv) => {
            check_bitvec!(ctx, &bv, &m, "BitVector", &q, case);
            check_nth(ctx, "BitVector.iter", || bv.iter(), &bools, true, &case);
            check_nth_back(ctx, "BitVector.iter", || bv.iter(), &bools, &case);
            check_nth_after_back(ctx, "BitVector.iter", || bv.iter(), &bools, &case);
            check_nth(ctx, "BitVector.one_iter", || bv.one_iter(), &ones, true, &case);
            check_nth_back(ctx, "BitVector.one_iter", || bv.one_iter(), &ones, &case);
            check_nth_after_back(ctx, "BitVector.one_iter", || bv.one_iter(), &ones, &case);
            check_nth(ctx, "BitVector.zero_iter", || bv.zero_iter(), &zeros, true, &case);
            check_nth_back(ctx, "BitVector.zero_iter", || bv.zero_iter(), &zeros, &case);
            check_nth_after_back(ctx, "BitVector.zero_iter", || bv.zero_iter(), &zeros, &case);
            // positioned iterators hand out the same type
            if !ones.is_empty() {
                let r = ones.len() / 2;
                check_nth(ctx, "BitVector.select_iter", || bv.select_iter(r), &ones[r..], true, &case);
            }
            if !zeros.is_empty() {
                let r = zeros.len() / 2;
                check_nth(ctx, "BitVector.select_zero_iter", || bv.select_zero_iter(r), &zeros[r..], true, &case);
            }
        }
        Err(msg) => ctx.panic_violation("BitVector.construct", &msg, None, case),
    }
    // Sparse.
    match guard(|| sparse_from_model(&m)) {
        Ok(Ok(sv)) => {
            check_bitvec!(ctx, &sv, &m, "SparseVector", &q, case);
            check_nth(ctx, "SparseVector.iter", || sv.iter(), &bools, true, &case);
            check_nth_back(ctx, "SparseVector.iter", || sv.iter(), &bools, &case);
            check_nth_after_back(ctx, "SparseVector.iter", || sv.iter(), &bools, &case);
            check_nth(ctx, "SparseVector.one_iter", || sv.one_iter(), &ones, true, &case);
            check_nth_back(ctx, "SparseVector.one_iter", || sv.one_iter(), &ones, &case);
            check_nth_after_back(ctx, "SparseVector.one_iter", || sv.one_iter(), &ones, &case);
            check_nth(ctx, "SparseVector.zero_iter", || sv.zero_iter(), &zeros, true, &case);
        }
        Ok(Err(e)) => {
            ctx.require(|| "SparseVector.construct".to_string(), false, case, || json!({"observed": e}));
        }
        Err(msg) => ctx.panic_violation("SparseVector.construct", &msg, None, case),
    }
    // Run-length.
    match guard(|| rl_from_model(&m)) {
        Ok(Ok(rl)) => {
            check_bitvec!(ctx, &rl, &m, "RLVector", &q, case);
            let runs: Vec<(usize, usize)> = m.runs.iter().map(|&(s, l)| (s as usize, l as usize)).collect();
            check_nth(ctx, "RLVector.iter", || rl.iter(), &bools, true, &case);
            check_nth(ctx, "RLVector.one_iter", || rl.one_iter(), &ones, true, &case);
            check_nth(ctx, "RLVector.zero_iter", || rl.zero_iter(), &zeros, true, &case);
            check_nth(ctx, "RLVector.run_iter", || rl.run_iter(), &runs, false, &case);
        }
        Ok(Err(e)) => {
            ctx.require(|| "RLVector.construct".to_string(), false, case, || json!({"observed": e}));
        }
        Err(msg) => ctx.panic_violation("RLVector.construct", &msg, None, case),
    }
}

fn check_wm(ctx: &mut Ctx, values: &[u64]) {
    let c = Case::Wm(values.to_vec());
    let case = || serde_json::to_value(&c).unwrap();
    ctx.announce(case);
    ctx.sample_tagged("wavelet-matrix", case);
    ctx.nontrivial(&("wm", values));
    // All WaveletMatrix queries with A(.) in every argument position (shared with C04).
    wmcheck::check_case(ctx, &wmcheck::Case { values: values.to_vec() });

    let n = values.len();
    let max = values.iter().copied().max().unwrap_or(0);
    let w = wmcheck::bit_len(max);
    let (wm, core) = match guard(|| (WaveletMatrix::from(values.to_vec()), WMCore::from(values.to_vec()))) {
        Ok(x) => x,
        Err(_) => return, // reported by wmcheck
    };
    check_nth(ctx, "WaveletMatrix.iter", || wm.iter(), values, true, &case);
    check_nth_back(ctx, "WaveletMatrix.iter", || wm.iter(), values, &case);
    check_nth_after_back(ctx, "WaveletMatrix.iter", || wm.iter(), values, &case);
    check_nth(ctx, "WaveletMatrix.into_iter", || wm.clone().into_iter(), values, true, &case);
    for v in wmcheck::value_args(values, w) {
        let occ: Vec<(usize, usize)> = wmcheck::occurrences(values, v).into_iter().enumerate().collect();
        check_nth(ctx, "WaveletMatrix.value_iter", || wm.value_iter(v), &occ, false, &case);
    }

    // Core mapping: any index, any value.
    let mut idx: Vec<usize> = (0..=n + 1).collect();
    idx.extend(boundary_args(n));
    idx.sort_unstable();
    idx.dedup();
    let key = |v: u64| wmcheck::rev_low(v, w);
    let mut order: Vec<usize> = (0..n).collect();
    order.sort_by_key(|&i| key(values[i]));
    let mut pos_of = vec![0usize; n];
    for (p, &i) in order.iter().enumerate() {
        pos_of[i] = p;
    }
    for &i in &idx {
        let want = if i < n { Some((pos_of[i], values[i])) } else { None };
        ctx.expect(|| format!("WMCore.map_down[{}]", arg_class(i, n)), guard(|| core.map_down(i)), &want, || json!({"x": case(), "call": format!("core.map_down({})", i)}));
    }
    for v in wmcheck::value_args(values, w) {
        let in_alphabet = v <= max;
        let smaller = values.iter().filter(|&&y| key(y) < key(v)).count();
        for &i in &idx {
            let got = guard(|| core.map_down_with(i, v));
            if in_alphabet {
                let want = smaller + values[..i.min(n)].iter().filter(|&&y| y == v).count();
                ctx.expect(|| format!("WMCore.map_down_with[{}]", arg_class(i, n)), got, &want, || json!({"x": case(), "call": format!("core.map_down_with({}, {})", i, v)}));
            } else if let Err(msg) = got {
                ctx.panic_violation(&format!("WMCore.map_down_with[{},outside]", arg_class(i, n)), &msg, None, || json!({"x": case(), "call": format!("core.map_down_with({}, {})", i, v)}));
            } else {
                ctx.eval();
            }
            // The two-position variant is documented as two map_down_with queries at once: any pair of indexes.
            if in_alphabet {
                let want_i = smaller + values[..i.min(n)].iter().filter(|&&y| y == v).count();
                for &j in &idx {
                    let want_j = smaller + values[..j.min(n)].iter().filter(|&&y| y == v).count();
                    ctx.expect(|| format!("WMCore.map_down_with_two_positions[{},{}]", arg_class(i, n), arg_class(j, n)), guard(|| core.map_down_with_two_positions(i, j, v)), &(want_i, want_j), || json!({"x": case(), "call": format!("core.map_down_with_two_positions({}, {}, {})", i, j, v)}));
                }
            }
            // map_up_with(index, value): the position where map_down returns (index, value), else None.
            let got = guard(|| core.map_up_with(i, v));
            if in_alphabet {
                let want = (0..n).find(|&j| values[j] == v && pos_of[j] == i);
                ctx.expect(|| format!("WMCore.map_up_with[{}]", arg_class(i, n)), got, &want, || json!({"x": case(), "call": format!("core.map_up_with({}, {})", i, v)}));
            } else if let Err(msg) = got {
                ctx.panic_violation(&format!("WMCore.map_up_with[{},outside]", arg_class(i, n)), &msg, None, || json!({"x": case(), "call": format!("core.map_up_with({}, {})", i, v)}));
            } else {
                ctx.eval();
            }
        }
    }
}

fn check_constructors(ctx: &mut Ctx) {
    let case = || json!("Constructors");
    ctx.announce(case);
    ctx.nontrivial(&"constructors");
    for w in [0usize, 1, 13, 64, 65, 1 << 20, usize::MAX] {
        let valid = (1..=64).contains(&w);
        ctx.expect(|| "IntVector.new[width]".to_string(), guard(|| IntVector::new(w).is_ok()), &valid, || json!({"x": case(), "call": format!("IntVector::new({})", w)}));
        ctx.expect(|| "IntVector.with_len[width]".to_string(), guard(|| IntVector::with_len(3, w, 1).is_ok()), &valid, || json!({"x": case(), "call": format!("IntVector::with_len(3, {}, 1)", w)}));
        ctx.expect(|| "IntVector.with_capacity[width]".to_string(), guard(|| IntVector::with_capacity(3, w).is_ok()), &valid, || json!({"x": case(), "call": format!("IntVector::with_capacity(3, {})", w)}));
        let path = ctx.scratch.join("c09-writer.bin");
        ctx.expect(|| "IntVectorWriter.new[width]".to_string(), guard(|| IntVectorWriter::new(&path, w).is_ok()), &valid, || json!({"x": case(), "call": format!("IntVectorWriter::new(_, {})", w)}));
        ctx.expect(|| "IntVectorWriter.with_buf_len[width]".to_string(), guard(|| IntVectorWriter::with_buf_len(&path, w, 4).is_ok()), &valid, || json!({"x": case(), "call": format!("IntVectorWriter::with_buf_len(_, {}, 4)", w)}));
        let _ = std::fs::remove_file(&path);
    }
    for (u, o) in [(0usize, 0usize), (0, 1), (5, 5), (5, 6), (5, usize::MAX), (1 << 30, (1 << 30) + 1)] {
        ctx.expect(|| "SparseBuilder.new[ones vs universe]".to_string(), guard(|| SparseBuilder::new(u, o).is_ok()), &(o <= u), || json!({"x": case(), "call": format!("SparseBuilder::new({}, {})", u, o)}));
    }
    // Extreme universes: the constructors are total up to usize::MAX, and what they build answers. (Never with
    // zero values: an empty vector over a huge universe gets a bucket bitvector of universe / 2 bits.)
    for u in [1usize << 63, (1 << 63) + 1, usize::MAX - 1, usize::MAX] {
        for o in [1usize, 2, 3, 5] {
            let pos: Vec<usize> = (0..o).map(|i| if i + 1 == o { u - 1 } else { (u / o) * i + i }).collect();
            let call = || format!("SparseBuilder::new({}, {}), set {:?}", u, o, pos);
            ctx.expect(|| "SparseBuilder.multiset[extreme universe]".to_string(), guard(|| { let _ = SparseBuilder::multiset(u, o); true }), &true, || json!({"x": case(), "call": format!("SparseBuilder::multiset({}, {})", u, o)}));
            let built = guard(|| {
                let mut b = SparseBuilder::new(u, o).map_err(|e| e.to_string())?;
                for &p in &pos {
                    b.try_set(p).map_err(|e| e.to_string())?;
                }
                SparseVector::try_from(b).map_err(|e| e.to_string())
            });
            match built {
                Ok(Ok(sv)) => {
                    let last = (o - 1, u - 1);
                    let got = guard(|| (sv.len(), sv.count_ones(), sv.rank(usize::MAX), sv.rank(u - 1), sv.get(u - 1), sv.select(o - 1), sv.select(o), sv.predecessor(usize::MAX).next(), sv.successor(u - 1).next(), sv.successor(u).next(), sv.successor(0).next(), sv.one_iter().collect::<Vec<_>>()));
                    let want = (u, o, o, o - 1, true, Some(u - 1), None, Some(last), Some(last), None, Some((0, pos[0])), pos.iter().copied().enumerate().collect::<Vec<_>>());
                    ctx.expect(|| "SparseVector[extreme universe](len, count_ones, rank, get, select, predecessor, successor, one_iter)".to_string(), got, &want, || json!({"x": case(), "call": call()}));
                }
                Ok(Err(e)) => {
                    ctx.require(|| "SparseBuilder.new[extreme universe]".to_string(), false, || json!({"x": case(), "call": call()}), || json!({"observed": format!("Err({})", e), "expected": "Ok"}));
                }
                Err(msg) => ctx.panic_violation("SparseBuilder.new[extreme universe]", &msg, Some("Ok".to_string()), || json!({"x": case(), "call": call()})),
            }
        }
    }
    for (s, l) in [(0usize, usize::MAX), (1, usize::MAX), (usize::MAX, 1), (usize::MAX, 0), (1 << 63, 1 << 63), (1 << 63, (1 << 63) - 1), (usize::MAX - 1, 2)] {
        let fits = (s as u128 + l as u128) <= usize::MAX as u128;
        ctx.expect(|| "RLBuilder.try_set[overflow]".to_string(), guard(|| RLBuilder::new().try_set(s, l).is_ok()), &fits, || json!({"x": case(), "call": format!("RLBuilder::new().try_set({}, {})", s, l)}));
    }
}

fn representatives() -> Vec<BitsDesc> {
    use Letter::*;
    vec![
        BitsDesc::Letters(vec![Ones(64)]),
        BitsDesc::Letters(vec![Zeros(64)]),
        BitsDesc::Letters(vec![Every(3, 200), Zeros(13)]),
        BitsDesc::Letters(vec![Zeros(511), Ones(2)]),
        BitsDesc::Letters(vec![Ones(513)]),
        BitsDesc::Letters(vec![Every(3, 5000), Ones(4097)]),
        BitsDesc::Letters(vec![Every(25000, 5), Zeros(1)]),
        BitsDesc::Letters(vec![Zeros(90000), Ones(1)]),
        BitsDesc::Letters(vec![EveryZero(25000, 4), Ones(3)]),
    ]
}

fn explore(ctx: &mut Ctx) {
    vcore::model::self_check().expect("reference model self-check failed");
    let n = ctx.tier.pick(10, 16);
    for len in 0..=n {
        for word in 0..(1u64 << len) {
            let d = BitsDesc::Word { len, word };
            if ctx.mine(&d) {
                ctx.count("small_bit_sequences", 1);
                check_bits(ctx, &d);
            }
        }
    }
    for d in representatives() {
        if ctx.mine(&d) {
            ctx.count("representatives", 1);
            check_bits(ctx, &d);
        }
    }
    let scopes: Vec<(usize, usize)> = if ctx.tier.is_thorough() { vec![(1, 10), (2, 6), (3, 4), (4, 3)] } else { vec![(1, 6), (2, 4), (3, 3), (4, 2)] };
    for &(w, l) in &scopes {
        enumr::words(1 << w, l, |word| {
            let v: Vec<u64> = word.iter().map(|&x| x as u64).collect();
            if ctx.mine(&("wm", &v)) {
                ctx.count("wavelet_matrices", 1);
                check_wm(ctx, &v);
            }
        });
    }
    for v in [vec![0u64, 65535, 1, 32768], vec![255, 0, 128], vec![1u64 << 20, 3]] {
        if ctx.mine(&("wm", &v)) {
            check_wm(ctx, &v);
        }
    }
    if ctx.mine_index(0) {
        check_constructors(ctx);
    }
}

fn replay(ctx: &mut Ctx, v: &Value) {
    let inner = if v.get("x").is_some() { &v["x"] } else if v.get("bv").is_some() { &v["bv"] } else if v.get("wm").is_some() {
        // a violation reported by the shared wavelet-matrix checks
        let c: wmcheck::Case = serde_json::from_value(v["wm"].clone()).expect("replay: not a wavelet matrix case");
        check_wm(ctx, &c.values);
        return;
    } else if v.get("values").is_some() {
        // the shape the shared wavelet-matrix checks announce
        let c: wmcheck::Case = serde_json::from_value(v.clone()).expect("replay: not a wavelet matrix case");
        check_wm(ctx, &c.values);
        return;
    } else { v };
    let c: Case = serde_json::from_value(inner.clone()).expect("replay: not a C09 case");
    match c {
        Case::Bits(d) => check_bits(ctx, &d),
        Case::Wm(v) => check_wm(ctx, &v),
        Case::Constructors => check_constructors(ctx),
    }
}

fn main() {
    vcore::run_driver("C09", explore, replay, hook_hits);
}
