//! Cross-engine check for C05: the same RawVector history model (same initial states, same action alphabet,
//! same transition function on the REAL vector, same oracle) explored by stateright's breadth-first checker.
//! The numbers of unique states of the two engines must agree, and stateright must not discover a violation
//! of the "matches the reference" invariant. Output: one `XCHECK ...` line per initial state.

use drivers::rawmodel::*;
use simple_sds::raw_vector::RawVector;
use stateright::{Checker, Model, Property};
use std::hash::{Hash, Hasher};

#[derive(Clone, Debug)]
struct St {
    v: RawVector,
    r: Vec<bool>,
    depth: usize,
    bad: bool,
}

// The state IS the real vector's representation (len, words); the reference and the depth are carried along.
impl PartialEq for St {
    fn eq(&self, o: &St) -> bool {
        self.v.len() == o.v.len() && AsRef::<[u64]>::as_ref(&self.v) == AsRef::<[u64]>::as_ref(&o.v) && self.bad == o.bad
    }
}
impl Eq for St {}
impl Hash for St {
    fn hash<H: Hasher>(&self, h: &mut H) {
        self.v.len().hash(h);
        AsRef::<[u64]>::as_ref(&self.v).hash(h);
        self.bad.hash(h);
    }
}

struct RawHistories {
    init: RInit,
    depth: usize,
    values: Vec<u64>,
}

impl Model for RawHistories {
    type State = St;
    type Action = RAct;

    fn init_states(&self) -> Vec<St> {
        let (v, r) = r_init(&self.init);
        let bad = r_observe(&v, &r).is_some();
        vec![St { v, r, depth: 0, bad }]
    }

    fn actions(&self, s: &St, actions: &mut Vec<RAct>) {
        if s.depth < self.depth && !s.bad {
            actions.extend(r_actions(s.r.len(), &self.values, false));
        }
    }

    fn next_state(&self, s: &St, a: RAct) -> Option<St> {
        let mut v = s.v.clone();
        let mut r = s.r.clone();
        let ret = r_apply(&mut v, &mut r, &a);
        let bad = ret.is_some() || r_observe(&v, &r).is_some();
        Some(St { v, r, depth: s.depth + 1, bad })
    }

    fn properties(&self) -> Vec<Property<Self>> {
        vec![Property::<Self>::always("matches the reference", |_, s| !s.bad)]
    }
}

fn main() {
    let depth: usize = std::env::args().nth(1).and_then(|s| s.parse().ok()).unwrap_or(3);
    let values: Vec<u64> = vec![!0, 0xA5A5_A5A5_A5A5_A5A5];
    let mut inits = vec![RInit::New, RInit::WithCapacity(200)];
    for n in [1usize, 63, 64, 65, 128] {
        inits.push(RInit::WithLen(n, false));
        inits.push(RInit::WithLen(n, true));
    }
    let mut ok = true;
    for init in inits {
        let (own_states, own_transitions) = bfs_count(&init, depth, &values, false);
        let checker = RawHistories { init: init.clone(), depth, values: values.clone() }.checker().threads(1).spawn_bfs().join();
        let sr_states = checker.unique_state_count();
        let discoveries = checker.discoveries().len();
        let agree = sr_states == own_states && discoveries == 0;
        ok &= agree;
        println!("XCHECK init={:?} depth={} own_states={} own_transitions={} stateright_unique_states={} stateright_generated={} stateright_discoveries={} agree={}", init, depth, own_states, own_transitions, sr_states, checker.state_count(), discoveries, agree);
    }
    std::process::exit(if ok { 0 } else { 1 });
}
