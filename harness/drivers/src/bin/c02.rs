//! C02 — Elias-Fano sparse bitvector answers every query exactly (set semantics).
//! E-input: all subsets of small universes; every low-part width 1..=63 with four layouts;
//! run-structured sets that drive the select_zero binary search; empty and full vectors.

use drivers::*;
use serde::{Deserialize, Serialize};
use simple_sds::bit_vector::BitVector;
use simple_sds::ops::BitVec;
use simple_sds::rl_vector::RLVector;
use simple_sds::sparse_vector::{SparseBuilder, SparseVector};
use std::convert::TryFrom;
use vcore::enumr;
use vcore::spec;

#[derive(Serialize, Deserialize, Clone, Debug, Hash)]
enum Case {
    /// All subsets: bit i of `word` for i < n.
    Subset { n: usize, word: u64 },
    /// Universe n, explicit strictly increasing positions (few).
    Explicit { n: usize, pos: Vec<usize>, want_width: Option<usize> },
    /// Alternating (gap, run) letters, then `tail` unset bits.
    Runs { letters: Vec<(usize, usize)>, tail: usize },
    /// No set bits.
    Empty { n: usize },
    /// All bits set.
    Full { n: usize },
}

fn model_of(c: &Case) -> Bits {
    match c {
        Case::Subset { n, word } => Bits::from_word(*word, *n),
        Case::Explicit { n, pos, .. } => Bits::from_positions(*n as u128, &pos.iter().map(|&p| p as u128).collect::<Vec<_>>()),
        Case::Runs { letters, tail } => {
            let mut runs = Vec::new();
            let mut at = 0u128;
            for &(g, r) in letters {
                at += g as u128;
                runs.push((at, r as u128));
                at += r as u128;
            }
            Bits::from_runs(at + *tail as u128, &runs)
        }
        Case::Empty { n } => Bits::from_runs(*n as u128, &[]),
        Case::Full { n } => Bits::from_runs(*n as u128, &[(0, *n as u128)]),
    }
}

fn family(c: &Case) -> &'static str {
    match c {
        Case::Subset { .. } => "all-subsets",
        Case::Explicit { .. } => "width-directed",
        Case::Runs { .. } => "run-structured",
        Case::Empty { .. } => "empty",
        Case::Full { .. } => "full",
    }
}

fn build_set(m: &Bits) -> Result<SparseVector, String> {
    sparse_from_model(m)
}

fn check_case(ctx: &mut Ctx, c: &Case) {
    let m = model_of(c);
    let case = || serde_json::to_value(c).unwrap();
    ctx.announce(case);
    ctx.sample_tagged(family(c), case);

    let sv = match guard(|| build_set(&m)) {
        Ok(Ok(sv)) => sv,
        Ok(Err(e)) => {
            ctx.require(|| "SparseVector.construct(try_set)".to_string(), false, || json!({"bv": case(), "call": "SparseBuilder::new + try_set + try_from"}), || json!({"observed": format!("builder refused a valid set: {}", e)}));
            return;
        }
        Err(msg) => {
            ctx.panic_violation("SparseVector.construct(try_set)", &msg, None, || json!({"bv": case(), "call": "SparseBuilder::new + try_set + try_from"}));
            return;
        }
    };

    // Regime evidence: the low width as written to the file (decoded by the independent codec).
    let bytes = to_bytes(&sv);
    let mut problems = Vec::new();
    let width = match spec::read_sparse(&mut spec::Reader::new(&bytes), &mut problems) {
        Ok(f) => Some(f.width as usize),
        Err(_) => None,
    };
    if let Some(w) = width {
        ctx.note("low_widths_seen", format!("{:02}", w));
        if let Case::Explicit { want_width: Some(ww), .. } = c {
            if *ww == w {
                ctx.count("width_directed_cases_hitting_the_intended_width", 1);
            }
        }
    }
    if m.ones() > 16 {
        ctx.count("cases_entering_select_zero_binary_search", 1);
    }
    if m.ones() > 0 && m.zeros() > 0 {
        ctx.nontrivial(c);
    }

    let q = match c {
        Case::Subset { .. } => Queries::exhaustive(&m),
        Case::Runs { .. } if m.len <= 5000 => Queries::exhaustive(&m),
        Case::Runs { .. } | Case::Explicit { .. } | Case::Empty { .. } | Case::Full { .. } => {
            let bucket = width.map(|w| 1u128 << w).unwrap_or(0);
            let small = m.len <= 5000;
            let mut q = if small { Queries::exhaustive(&m) } else { Queries::edges(&m, &[bucket], &[16, 4096], if m.ones() > 10_000 { 200 } else { 24 }, m.len <= 100_000) };
            if !small && m.ones() > 10_000 && m.ones() <= 1_000_000 {
                // every rank for select (cheap), so that every superblock of the bucket bitvector is used
                q.ranks = (0..=m.ones() as usize + 1).chain(boundary_args(m.ones() as usize)).collect();
                q.ranks.sort_unstable();
                q.ranks.dedup();
            }
            if !small && m.zeros() > 1_000_000 {
                // zero-side full iteration is linear in the universe
                q.full_iters = false;
            }
            q
        }
    };
    check_bitvec!(ctx, &sv, &m, "SparseVector", &q, case);
    if !q.full_iters {
        // still walk the set bits (cheap) when the full iterators are skipped
        let got = guard(|| {
            use simple_sds::ops::Select;
            sv.one_iter().map(|(_, p)| p as u128).collect::<Vec<u128>>()
        });
        ctx.expect(|| "SparseVector.one_iter".to_string(), got, &m.positions(), || json!({"bv": case(), "call": "one_iter() to the end"}));
    }

    // Other construction routes give an equal vector and identical bytes.
    let positions: Vec<usize> = if m.ones() <= 100_000 { m.positions().into_iter().map(|p| p as usize).collect() } else { vec![] };
    let mut routes: Vec<(&str, Result<SparseVector, String>)> = Vec::new();
    if m.ones() <= 100_000 {
        routes.push(("set", guard(|| {
            let mut b = SparseBuilder::new(m.len as usize, positions.len()).unwrap();
            for &p in &positions {
                b.set(p);
            }
            SparseVector::try_from(b).unwrap()
        })));
        routes.push(("extend", guard(|| {
            let mut b = SparseBuilder::new(m.len as usize, positions.len()).unwrap();
            b.extend(positions.iter().copied());
            SparseVector::try_from(b).unwrap()
        })));
        routes.push(("copy_bit_vec(SparseVector)", guard(|| SparseVector::copy_bit_vec(&sv))));
    }
    if m.len <= 4200 {
        routes.push(("From<BitVector>", guard(|| SparseVector::from(BitVector::from(raw_from_model(&m))))));
        routes.push(("copy_bit_vec(RLVector)", guard(|| {
            let rl: RLVector = rl_from_model(&m).unwrap();
            SparseVector::copy_bit_vec(&rl)
        })));
    }
    for (route, r) in routes {
        match r {
            Ok(v) => {
                // Same bits and counts, same answers (identical representation is C11's statement).
                let same = guard(|| {
                    use simple_sds::ops::Select;
                    v.len() == sv.len() && v.count_ones() == sv.count_ones() && v.one_iter().eq(sv.one_iter())
                });
                ctx.expect(|| format!("SparseVector.route({})[bits and counts]", route), same, &true, || json!({"bv": case(), "call": route}));
                let mut q2 = if m.len <= 64 { Queries::exhaustive(&m) } else { Queries::edges(&m, &[], &[16], 12, false) };
                q2.full_iters = false;
                let name = format!("SparseVector(route {})", route);
                check_bitvec!(ctx, &v, &m, &name, &q2, case);
            }
            Err(msg) => ctx.panic_violation(&format!("SparseVector.route({})", route), &msg, None, || json!({"bv": case(), "call": route})),
        }
    }
}

fn explore(ctx: &mut Ctx) {
    vcore::model::self_check().expect("reference model self-check failed");

    // (a) every subset of every universe n <= N
    let nmax = ctx.tier.pick(12, 15);
    for n in 0..=nmax {
        for word in 0..(1u64 << n) {
            let c = Case::Subset { n, word };
            if ctx.mine(&c) {
                check_case(ctx, &c);
            }
        }
    }

    // (b) every low width 1..=63, four layouts, five sizes; universes at the top of the range
    for w in 1..=63usize {
        for &m in &[1usize, 2, 3, 17, 40] {
            // n = 1.5 * m * 2^w, capped
            let n128 = (3u128 * m as u128 * (1u128 << w)) / 2;
            let n = if n128 > usize::MAX as u128 { usize::MAX } else { n128 as usize };
            if n < m {
                continue;
            }
            let bucket = 1u128 << w;
            let mut layouts: Vec<Vec<usize>> = Vec::new();
            layouts.push((0..m).collect());
            layouts.push((0..m).map(|i| n - m + i).collect());
            layouts.push((0..m).map(|i| ((i as u128 * n as u128) / m as u128) as usize).collect());
            // straddling bucket boundaries: 2^w*k - 1, 2^w*k
            let mut s: Vec<usize> = Vec::new();
            let mut k = 1u128;
            while s.len() < m {
                let b = bucket * k;
                if b - 1 < n as u128 {
                    s.push((b - 1) as usize);
                }
                if s.len() < m && b < n as u128 {
                    s.push(b as usize);
                }
                if b >= n as u128 {
                    break;
                }
                k += 1;
            }
            if s.len() == m {
                layouts.push(s);
            }
            for pos in layouts {
                let mut pos = pos;
                pos.dedup();
                if pos.len() != m || pos.windows(2).any(|p| p[0] >= p[1]) {
                    continue;
                }
                let c = Case::Explicit { n, pos, want_width: Some(w) };
                if ctx.mine(&c) {
                    ctx.count("width_directed_cases", 1);
                    check_case(ctx, &c);
                }
            }
        }
    }
    for &n in &[usize::MAX, usize::MAX - 1, (1usize << 63) + 1, 1usize << 63] {
        for pos in [vec![0usize], vec![n - 1], vec![n / 2], vec![0, n - 1], vec![n - 2, n - 1], vec![0, n / 2, n - 1], vec![0, 1, 2], vec![n - 3, n - 2, n - 1]] {
            let c = Case::Explicit { n, pos, want_width: None };
            if ctx.mine(&c) {
                ctx.count("huge_universe_cases", 1);
                check_case(ctx, &c);
            }
        }
    }

    // (c) run-structured sets (the select_zero binary search only runs above 16 ones)
    let gaps = [0usize, 1, 2, 15, 16, 17, 33];
    let runs = [1usize, 2, 16, 17];
    let letters: Vec<(usize, usize)> = gaps.iter().flat_map(|&g| runs.iter().map(move |&r| (g, r))).collect();
    let depth = ctx.tier.pick(3, 4);
    enumr::words(letters.len(), depth, |w| {
        if w.is_empty() {
            return;
        }
        // gap 0 is only meaningful for the first letter (runs are maximal); skip words that would merge runs
        if w.iter().skip(1).any(|&i| letters[i].0 == 0) {
            return;
        }
        let tails: &[usize] = if w.len() >= 3 { &[0, 1] } else { &[0, 1, 40] };
        for &tail in tails {
            let c = Case::Runs { letters: w.iter().map(|&i| letters[i]).collect(), tail };
            if ctx.mine(&c) {
                ctx.count("run_structured_cases", 1);
                check_case(ctx, &c);
            }
        }
    });

    // (c2) large clustered sets: solid runs with huge holes make the select structures of the internal
    // bucket bitvector use their explicit-offset ("long") superblocks, which small sets never reach.
    let big: Vec<(Vec<(usize, usize)>, usize)> = vec![
        (vec![(0, 30000), (29_000_000, 35536)], 900_000),
        (vec![(1000, 5000), (14_000_000, 60536)], 15_000_000),
        (vec![(7, 4097), (50_000_000, 4095), (50_000_000, 60000)], 3),
        (vec![(300_000, 524_288)], 40_000_000),
        (vec![(0, 100_000), (1, 100_000), (60_000_000, 1)], 0),
    ];
    for (letters, tail) in big {
        let c = Case::Runs { letters, tail };
        if ctx.mine(&c) {
            ctx.count("large_clustered_cases", 1);
            check_case(ctx, &c);
        }
    }

    // (d) empty and full vectors ("bounded by memory only")
    let mut empties: Vec<usize> = vec![0, 1, 2, 63, 64, 65, 4095, 4096, 4097, 1 << 16, 1 << 20];
    if ctx.tier.is_thorough() {
        empties.extend([(1 << 20) + 1, 1 << 24, (1 << 26) - 1]);
    }
    for n in empties {
        let c = Case::Empty { n };
        if ctx.mine(&c) {
            check_case(ctx, &c);
        }
    }
    for n in [1usize, 2, 63, 64, 65, 511, 512, 513, 4095, 4096] {
        let c = Case::Full { n };
        if ctx.mine(&c) {
            check_case(ctx, &c);
        }
    }
}

fn replay(ctx: &mut Ctx, v: &Value) {
    let c: Case = serde_json::from_value(v["bv"].clone()).expect("replay: not a C02 case");
    check_case(ctx, &c);
}

fn main() {
    vcore::run_driver("C02", explore, replay, hook_hits);
}
