//! C04 — wavelet matrix reproduces the vector and answers rank/select-type queries.
//! E-input: every vector over small full alphabets, sparse alphabets up to width 16, all five item types.

use drivers::wmcheck::{check_case, Case};
use drivers::*;
use vcore::enumr;

fn explore(ctx: &mut Ctx) {
    // (a) every vector over the full alphabet 0..2^w, length 0..=L
    let scopes: Vec<(usize, usize)> = if ctx.tier.is_thorough() { vec![(1, 13), (2, 8), (3, 5), (4, 5), (5, 3)] } else { vec![(1, 8), (2, 5), (3, 4), (4, 3)] };
    for &(w, l) in &scopes {
        enumr::words(1 << w, l, |word| {
            let c = Case { values: word.iter().map(|&x| x as u64).collect() };
            if ctx.mine(&c) {
                ctx.count("full_alphabet_vectors", 1);
                check_case(ctx, &c);
            }
        });
    }
    // (b) sparse alphabets up to width 16
    let kmax = ctx.tier.pick(8, 16);
    for k in 2..=16usize {
        let letters: Vec<u64> = { let mut l = vec![0u64, 1, (1 << (k - 1)) - 1, 1 << (k - 1), (1 << k) - 1]; l.sort_unstable(); l.dedup(); l };
        let depth = if k <= kmax { 4 } else if k == 12 || k == 16 { 2 } else { 0 };
        if depth == 0 {
            continue;
        }
        enumr::words(letters.len(), depth, |word| {
            let c = Case { values: word.iter().map(|&x| letters[x]).collect() };
            if ctx.mine(&c) {
                ctx.count("sparse_alphabet_vectors", 1);
                check_case(ctx, &c);
            }
        });
    }
    // (c) wide values: `first` has max+1 entries, so widths up to the middle twenties are affordable with
    // short vectors; beyond that a single value needs gigabytes and is out of scope.
    let wide: Vec<(usize, usize)> = if ctx.tier.is_thorough() { vec![(17, 3), (20, 3), (22, 3), (24, 2), (26, 1)] } else { vec![(17, 3), (20, 2), (22, 1)] };
    for &(k, depth) in &wide {
        let letters: Vec<u64> = vec![0u64, 1, (1 << (k - 1)) - 1, 1 << (k - 1), (1 << k) - 1];
        enumr::words(letters.len(), depth, |word| {
            let c = Case { values: word.iter().map(|&x| letters[x]).collect() };
            if ctx.mine(&c) {
                ctx.count("wide_alphabet_vectors", 1);
                check_case(ctx, &c);
            }
        });
    }
}

fn replay(ctx: &mut Ctx, v: &Value) {
    let c: Case = serde_json::from_value(v["wm"].clone()).expect("replay: not a C04 case");
    check_case(ctx, &c);
}

fn main() {
    vcore::run_driver("C04", explore, replay, hook_hits);
}
