//! C10 — every iterator yields the reference sequence under any interleaving of calls.
//! E-hist: the complete call tree (next / next_back / nth(k) / nth_back(k), k in {0,1,2,MAX}; every
//! branch continues on a clone) over every iterator kind and starting point; a state is a history.

use drivers::catalogue::{self, BitsDesc};
use drivers::*;
use serde::{Deserialize, Serialize};
use simple_sds::int_vector::IntVector;
use simple_sds::ops::{Access, BitVec, PredSucc, Select, SelectZero, VectorIndex};
use simple_sds::wavelet_matrix::WaveletMatrix;
use std::collections::VecDeque;
use std::fmt::Debug;
use vcore::enumr;

#[derive(Serialize, Deserialize, Clone, Copy, Debug, PartialEq, Eq, Hash)]
enum Act {
    Next,
    NextBack,
    Nth(usize),
    NthBack(usize),
}

#[derive(Serialize, Deserialize, Clone, Debug, PartialEq, Eq, Hash)]
enum Parent {
    Bv(BitsDesc),
    Sparse(BitsDesc),
    Rl(BitsDesc),
    /// The same structures after serialize + load.
    BvLoaded(BitsDesc),
    SparseLoaded(BitsDesc),
    RlLoaded(BitsDesc),
    /// A plain bitvector over the complement of a raw vector (`RawVector::complement`).
    BvComplement(BitsDesc),
    Multi { universe: usize, values: Vec<usize> },
    Int { width: usize, values: Vec<u64> },
    Wm(Vec<u64>),
}

#[derive(Serialize, Deserialize, Clone, Debug, PartialEq, Eq, Hash)]
enum Start {
    Iter,
    OneIter,
    ZeroIter,
    RunIter,
    IntoIter,
    SelectIter(usize),
    SelectZeroIter(usize),
    Pred(usize),
    Succ(usize),
    ValueIter(u64),
    WmSelectIter(usize, u64),
    WmPred(usize, u64),
    WmSucc(usize, u64),
}

#[derive(Serialize, Deserialize, Clone, Debug)]
struct Case {
    parent: Parent,
    start: Start,
    acts: Vec<Act>,
}

struct Walker<'c> {
    ctx: &'c mut Ctx,
    name: String,
    exact: bool,
    parent: Parent,
    start: Start,
    /// Replay: follow exactly this path.
    only: Option<Vec<Act>>,
}

const FWD: [Act; 5] = [Act::Next, Act::Nth(0), Act::Nth(1), Act::Nth(2), Act::Nth(usize::MAX)];
const BACK: [Act; 5] = [Act::NextBack, Act::NthBack(0), Act::NthBack(1), Act::NthBack(2), Act::NthBack(usize::MAX)];

fn model_step<T: Clone>(q: &mut VecDeque<T>, act: Act) -> Option<T> {
    match act {
        Act::Next => q.pop_front(),
        Act::NextBack => q.pop_back(),
        Act::Nth(k) => {
            for _ in 0..k.min(q.len()) {
                q.pop_front();
            }
            q.pop_front()
        }
        Act::NthBack(k) => {
            for _ in 0..k.min(q.len()) {
                q.pop_back();
            }
            q.pop_back()
        }
    }
}

fn act_name(a: Act) -> String {
    match a {
        Act::Next => "next".into(),
        Act::NextBack => "next_back".into(),
        Act::Nth(k) => format!("nth[{}]", if k == usize::MAX { "max" } else { "small" }),
        Act::NthBack(k) => format!("nth_back[{}]", if k == usize::MAX { "max" } else { "small" }),
    }
}

/// Explores the call tree below `it` (whose remaining reference sequence is `q`).
fn walk<I, T>(w: &mut Walker, it: &I, q: &VecDeque<T>, depth_left: usize, hist: &mut Vec<Act>, back: Option<&dyn Fn(&mut I, Act) -> Option<T>>, after_exhaustion: bool)
where
    I: Iterator<Item = T> + Clone,
    T: PartialEq + Debug + Clone,
{
    if depth_left == 0 {
        return;
    }
    let mut acts: Vec<Act> = FWD.to_vec();
    if back.is_some() {
        acts.extend(BACK);
    }
    if let Some(path) = &w.only {
        match path.get(hist.len()) {
            Some(a) => acts = vec![*a],
            None => return,
        }
    }
    for act in acts {
        let mut it2 = it.clone();
        let mut q2 = q.clone();
        let want = model_step(&mut q2, act);
        hist.push(act);
        w.ctx.transitions += 1;
        w.ctx.states += 1;
        let case = || serde_json::to_value(Case { parent: w.parent.clone(), start: w.start.clone(), acts: hist.clone() }).unwrap();
        // Every step is announced (a counter; the case is only rendered when a re-run asks for this very step).
        w.ctx.announce(case);
        let got = guard(|| {
            let r = match act {
                Act::Next => it2.next(),
                Act::Nth(k) => it2.nth(k),
                Act::NextBack | Act::NthBack(_) => (back.unwrap())(&mut it2, act),
            };
            // The consuming adaptors of the Iterator trait (the library may specialise them) on clones of the
            // iterator in this state: how many items are left, and which one is last.
            let rest = if q2.len() <= 64 { Some((it2.clone().count(), it2.clone().last())) } else { None };
            (r, it2.size_hint(), rest)
        });
        let want_hint = if w.exact { (q2.len(), Some(q2.len())) } else { (0, None) };
        let ok = match got {
            Ok((r, hint, rest)) => {
                // Exact-size iterators report the exact remainder; the others any valid bounds.
                let hint_ok = if w.exact { hint == want_hint } else { hint.0 <= q2.len() && hint.1.map(|u| u >= q2.len()).unwrap_or(true) };
                let name = &w.name;
                let exhausted = after_exhaustion;
                let mut ok = w.ctx.expect(|| format!("{}.{}{}", name, act_name(act), if exhausted { "[after None]" } else { "" }), Ok((r, if hint_ok { want_hint } else { hint })), &(want.clone(), want_hint), case);
                if let (true, Some(rest)) = (ok, rest) {
                    ok = w.ctx.expect(|| format!("{}.{}; count(), last()", name, act_name(act)), Ok(rest), &(q2.len(), q2.back().cloned()), case);
                }
                ok
            }
            Err(msg) => {
                w.ctx.panic_violation(&format!("{}.{}", w.name, act_name(act)), &msg, Some(format!("{:?}", want)), case);
                false
            }
        };
        if ok && depth_left > 1 {
            if want.is_none() || q2.is_empty() {
                // Exhausted: one more round of every call must keep returning None, then stop.
                if !after_exhaustion {
                    walk(w, &it2, &q2, 1, hist, back, true);
                }
            } else {
                walk(w, &it2, &q2, depth_left - 1, hist, back, false);
            }
        }
        hist.pop();
    }
}

fn run<I, T>(ctx: &mut Ctx, parent: &Parent, start: Start, name: &str, exact: bool, depth: usize, only: &Option<Vec<Act>>, it: I, reference: Vec<T>, back: Option<&dyn Fn(&mut I, Act) -> Option<T>>)
where
    I: Iterator<Item = T> + Clone,
    T: PartialEq + Debug + Clone,
{
    let before = ctx.states;
    let mut w = Walker { ctx, name: name.to_string(), exact, parent: parent.clone(), start, only: only.clone() };
    let q: VecDeque<T> = reference.into();
    // The fresh iterator must advertise the exact length.
    if exact {
        let hint = it.size_hint();
        let (p, s) = (w.parent.clone(), w.start.clone());
        w.ctx.expect(|| format!("{}.size_hint[fresh]", name), Ok(hint), &(q.len(), Some(q.len())), || serde_json::to_value(Case { parent: p, start: s, acts: vec![] }).unwrap());
    }
    let mut hist = Vec::new();
    let d = if only.is_some() { usize::MAX } else { depth };
    walk(&mut w, &it, &q, d, &mut hist, back, false);
    let n = ctx.states - before;
    ctx.nontrivial_by_construction(n);
    ctx.count_max("max_tree_size", n);
}

/// Creates the iterator under a guard (a panic while positioning it is a violation of its own) and walks it.
macro_rules! run_it {
    ($ctx:expr, $parent:expr, $start:expr, $name:expr, $exact:expr, $depth:expr, $only:expr, $it:expr, $reference:expr, $back:expr) => {{
        let start = $start;
        match guard(|| $it) {
            Ok(it) => run($ctx, $parent, start, $name, $exact, $depth, $only, it, $reference, $back),
            Err(msg) => {
                let (p, s) = ($parent.clone(), start.clone());
                $ctx.panic_violation(&format!("{}.create", $name), &msg, None, || serde_json::to_value(Case { parent: p, start: s, acts: vec![] }).unwrap());
            }
        }
    }};
}

fn de<I: DoubleEndedIterator>(it: &mut I, act: Act) -> Option<I::Item> {
    match act {
        Act::NextBack => it.next_back(),
        Act::NthBack(k) => it.nth_back(k),
        _ => unreachable!(),
    }
}

/// `want`: run only this start (replay); otherwise all starts of the parent.
fn explore_parent(ctx: &mut Ctx, parent: &Parent, depth: usize, pos_depth: usize, want: Option<(&Start, &Vec<Act>)>) {
    let only: Option<Vec<Act>> = want.map(|(_, a)| a.clone());
    let sel = |s: &Start| want.map(|(w, _)| w == s).unwrap_or(true);
    ctx.announce(|| json!({"parent": parent}));
    ctx.sample_tagged(match parent { Parent::Bv(_) => "BitVector", Parent::Sparse(_) => "SparseVector", Parent::Rl(_) => "RLVector", Parent::BvLoaded(_) => "BitVector(loaded)", Parent::SparseLoaded(_) => "SparseVector(loaded)", Parent::RlLoaded(_) => "RLVector(loaded)", Parent::BvComplement(_) => "BitVector(of a complemented raw vector)", Parent::Multi { .. } => "multiset", Parent::Int { .. } => "IntVector", Parent::Wm(_) => "WaveletMatrix" }, || json!({"parent": parent}));
    match parent {
        Parent::Bv(d) | Parent::Sparse(d) | Parent::Rl(d) | Parent::BvLoaded(d) | Parent::SparseLoaded(d) | Parent::RlLoaded(d) | Parent::BvComplement(d) => {
            let m = d.model();
            // Large parents exist for their internal regimes (many blocks, several index buckets), not for deep
            // call trees: those are explored exhaustively on the small parents.
            let (depth, pos_depth) = if m.len > 300 && depth != usize::MAX { (depth.min(4), pos_depth.min(3)) } else { (depth, pos_depth) };
            let bools = m.to_bools();
            let ones: Vec<(usize, usize)> = m.positions().into_iter().enumerate().map(|(r, p)| (r, p as usize)).collect();
            let zeros: Vec<(usize, usize)> = m.zero_positions().into_iter().enumerate().map(|(r, p)| (r, p as usize)).collect();
            let len = m.len as usize;
            // Starting points: every rank and position for small parents; for large ones the run edges +-1, a
            // uniform grid and the ends.
            let pick = |count: usize, marks: &[usize]| -> Vec<usize> {
                if count <= 300 {
                    return (0..=count + 1).collect();
                }
                let mut v: Vec<usize> = vec![0, 1, count - 1, count, count + 1];
                for &m in marks {
                    v.extend([m.saturating_sub(1), m, m + 1]);
                }
                for i in 0..=48 {
                    v.push(count / 48 * i);
                }
                v.retain(|&x| x <= count + 1);
                v.sort_unstable();
                v.dedup();
                v
            };
            let edge_pos: Vec<usize> = m.runs.iter().flat_map(|&(s, l)| [s as usize, (s + l) as usize]).take(200).collect();
            let one_marks: Vec<usize> = { let mut c = 0usize; m.runs.iter().map(|&(_, l)| { c += l as usize; c }).take(100).collect() };
            let starts_v = pick(len, &edge_pos);
            let starts_r = pick(ones.len(), &one_marks);
            let starts_z = pick(zeros.len(), &[]);
            let pred_ref = |v: usize| -> Vec<(usize, usize)> { match m.pred(v as u128) { Some((r, _)) => ones[r as usize..].to_vec(), None => vec![] } };
            let succ_ref = |v: usize| -> Vec<(usize, usize)> { match m.succ(v as u128) { Some((r, _)) => ones[r as usize..].to_vec(), None => vec![] } };
            match parent {
                Parent::Bv(_) | Parent::BvLoaded(_) | Parent::BvComplement(_) => {
                    let mut bv = bv_from_model(&m);
                    if matches!(parent, Parent::BvComplement(_)) {
                        use simple_sds::raw_vector::{PushRaw, RawVector};
                        let mut raw = RawVector::new();
                        for &b in &bools {
                            raw.push_bit(!b);
                        }
                        bv = simple_sds::bit_vector::BitVector::from(raw.complement());
                        enable_all(&mut bv);
                    }
                    if matches!(parent, Parent::BvLoaded(_)) {
                        bv = from_bytes(&to_bytes(&bv)).expect("harness: a serialized bitvector does not load (reported by C06)");
                    }
                    if sel(&Start::Iter) { run_it!(ctx, parent, Start::Iter, "BitVector.iter", true, depth, &only, bv.iter(), bools.clone(), Some(&de)); }
                    if sel(&Start::OneIter) { run_it!(ctx, parent, Start::OneIter, "BitVector.one_iter", true, depth, &only, bv.one_iter(), ones.clone(), Some(&de)); }
                    if sel(&Start::ZeroIter) { run_it!(ctx, parent, Start::ZeroIter, "BitVector.zero_iter", true, depth, &only, bv.zero_iter(), zeros.clone(), Some(&de)); }
                    for &r in &starts_r {
                        let s = Start::SelectIter(r);
                        if sel(&s) { run_it!(ctx, parent, s, "BitVector.select_iter", true, pos_depth, &only, bv.select_iter(r), ones.get(r..).unwrap_or(&[]).to_vec(), Some(&de)); }
                    }
                    for &r in &starts_z {
                        let s = Start::SelectZeroIter(r);
                        if sel(&s) { run_it!(ctx, parent, s, "BitVector.select_zero_iter", true, pos_depth, &only, bv.select_zero_iter(r), zeros.get(r..).unwrap_or(&[]).to_vec(), Some(&de)); }
                    }
                    for &v in &starts_v {
                        let s = Start::Pred(v);
                        if sel(&s) { run_it!(ctx, parent, s, "BitVector.predecessor", true, pos_depth, &only, bv.predecessor(v), pred_ref(v), Some(&de)); }
                        let s = Start::Succ(v);
                        if sel(&s) { run_it!(ctx, parent, s, "BitVector.successor", true, pos_depth, &only, bv.successor(v), succ_ref(v), Some(&de)); }
                    }
                }
                Parent::Sparse(_) | Parent::SparseLoaded(_) => {
                    let mut sv = sparse_from_model(&m).expect("harness: sparse builder refused a valid set");
                    if matches!(parent, Parent::SparseLoaded(_)) {
                        sv = from_bytes(&to_bytes(&sv)).expect("harness: a serialized sparse vector does not load (reported by C06)");
                    }
                    if sel(&Start::Iter) { run_it!(ctx, parent, Start::Iter, "SparseVector.iter", true, depth, &only, sv.iter(), bools.clone(), Some(&de)); }
                    if sel(&Start::OneIter) { run_it!(ctx, parent, Start::OneIter, "SparseVector.one_iter", true, depth, &only, sv.one_iter(), ones.clone(), Some(&de)); }
                    if sel(&Start::ZeroIter) { run_it!(ctx, parent, Start::ZeroIter, "SparseVector.zero_iter", true, depth, &only, sv.zero_iter(), zeros.clone(), None); }
                    for &r in &starts_r {
                        let s = Start::SelectIter(r);
                        if sel(&s) { run_it!(ctx, parent, s, "SparseVector.select_iter", true, pos_depth, &only, sv.select_iter(r), ones.get(r..).unwrap_or(&[]).to_vec(), Some(&de)); }
                    }
                    for &r in &starts_z {
                        let s = Start::SelectZeroIter(r);
                        if sel(&s) { run_it!(ctx, parent, s, "SparseVector.select_zero_iter", true, pos_depth, &only, sv.select_zero_iter(r), zeros.get(r..).unwrap_or(&[]).to_vec(), None); }
                    }
                    for &v in &starts_v {
                        let s = Start::Pred(v);
                        if sel(&s) { run_it!(ctx, parent, s, "SparseVector.predecessor", true, pos_depth, &only, sv.predecessor(v), pred_ref(v), Some(&de)); }
                        let s = Start::Succ(v);
                        if sel(&s) { run_it!(ctx, parent, s, "SparseVector.successor", true, pos_depth, &only, sv.successor(v), succ_ref(v), Some(&de)); }
                    }
                }
                _ => {
                    let mut rl = rl_from_model(&m).expect("harness: rl builder refused a valid run list");
                    if matches!(parent, Parent::RlLoaded(_)) {
                        rl = from_bytes(&to_bytes(&rl)).expect("harness: a serialized run-length vector does not load (reported by C06)");
                    }
                    let runs: Vec<(usize, usize)> = m.runs.iter().map(|&(s, l)| (s as usize, l as usize)).collect();
                    if sel(&Start::Iter) { run_it!(ctx, parent, Start::Iter, "RLVector.iter", true, depth, &only, rl.iter(), bools.clone(), None); }
                    if sel(&Start::OneIter) { run_it!(ctx, parent, Start::OneIter, "RLVector.one_iter", true, depth, &only, rl.one_iter(), ones.clone(), None); }
                    if sel(&Start::ZeroIter) { run_it!(ctx, parent, Start::ZeroIter, "RLVector.zero_iter", true, depth, &only, rl.zero_iter(), zeros.clone(), None); }
                    if sel(&Start::RunIter) { run_it!(ctx, parent, Start::RunIter, "RLVector.run_iter", false, depth, &only, rl.run_iter(), runs, None); }
                    for &r in &starts_r {
                        let s = Start::SelectIter(r);
                        if sel(&s) { run_it!(ctx, parent, s, "RLVector.select_iter", true, pos_depth, &only, rl.select_iter(r), ones.get(r..).unwrap_or(&[]).to_vec(), None); }
                    }
                    for &r in &starts_z {
                        let s = Start::SelectZeroIter(r);
                        if sel(&s) { run_it!(ctx, parent, s, "RLVector.select_zero_iter", true, pos_depth, &only, rl.select_zero_iter(r), zeros.get(r..).unwrap_or(&[]).to_vec(), None); }
                    }
                    for &v in &starts_v {
                        let s = Start::Pred(v);
                        if sel(&s) { run_it!(ctx, parent, s, "RLVector.predecessor", true, pos_depth, &only, rl.predecessor(v), pred_ref(v), None); }
                        let s = Start::Succ(v);
                        if sel(&s) { run_it!(ctx, parent, s, "RLVector.successor", true, pos_depth, &only, rl.successor(v), succ_ref(v), None); }
                    }
                }
            }
        }
        Parent::Multi { universe, values } => {
            let ms = Multiset { universe: *universe, values: values.clone() };
            let sv = catalogue::sparse_multiset(*universe, values);
            let all: Vec<(usize, usize)> = values.iter().copied().enumerate().collect();
            let bools: Vec<bool> = (0..*universe).map(|i| ms.get(i)).collect();
            if sel(&Start::Iter) { run_it!(ctx, parent, Start::Iter, "SparseVector(multiset).iter", true, depth, &only, sv.iter(), bools, Some(&de)); }
            if sel(&Start::OneIter) { run_it!(ctx, parent, Start::OneIter, "SparseVector(multiset).one_iter", true, depth, &only, sv.one_iter(), all.clone(), Some(&de)); }
            for r in 0..=values.len() + 1 {
                let s = Start::SelectIter(r);
                if sel(&s) { run_it!(ctx, parent, s, "SparseVector(multiset).select_iter", true, pos_depth, &only, sv.select_iter(r), all.get(r..).unwrap_or(&[]).to_vec(), Some(&de)); }
            }
            for v in 0..=*universe + 1 {
                let s = Start::Pred(v);
                if sel(&s) { run_it!(ctx, parent, s, "SparseVector(multiset).predecessor", true, pos_depth, &only, sv.predecessor(v), match ms.pred(v) { Some((r, _)) => all[r..].to_vec(), None => vec![] }, Some(&de)); }
                let s = Start::Succ(v);
                if sel(&s) { run_it!(ctx, parent, s, "SparseVector(multiset).successor", true, pos_depth, &only, sv.successor(v), match ms.succ(v) { Some((r, _)) => all[r..].to_vec(), None => vec![] }, Some(&de)); }
            }
        }
        Parent::Int { width, values } => {
            let iv: IntVector = catalogue::int_vector(*width, values);
            if sel(&Start::Iter) { run_it!(ctx, parent, Start::Iter, "IntVector.iter", true, depth, &only, iv.iter(), values.clone(), Some(&de)); }
            if sel(&Start::IntoIter) { run_it!(ctx, parent, Start::IntoIter, "IntVector.into_iter", true, depth, &only, iv.clone().into_iter(), values.clone(), None); }
        }
        Parent::Wm(values) => {
            let wm = WaveletMatrix::from(values.clone());
            let n = values.len();
            if sel(&Start::Iter) { run_it!(ctx, parent, Start::Iter, "WaveletMatrix.iter", true, depth, &only, wm.iter(), values.clone(), Some(&de)); }
            if sel(&Start::IntoIter) { run_it!(ctx, parent, Start::IntoIter, "WaveletMatrix.into_iter", true, depth, &only, wm.clone().into_iter(), values.clone(), None); }
            let max = values.iter().copied().max().unwrap_or(0);
            for v in 0..=max + 1 {
                let occ: Vec<(usize, usize)> = values.iter().enumerate().filter(|(_, &x)| x == v).map(|(i, _)| i).enumerate().collect();
                let s = Start::ValueIter(v);
                if sel(&s) { run_it!(ctx, parent, s, "WaveletMatrix.value_iter", false, depth, &only, wm.value_iter(v), occ.clone(), None); }
                for r in 0..=occ.len() + 1 {
                    let s = Start::WmSelectIter(r, v);
                    if sel(&s) { run_it!(ctx, parent, s, "WaveletMatrix.select_iter", false, pos_depth, &only, wm.select_iter(r, v), occ.get(r..).unwrap_or(&[]).to_vec(), None); }
                }
                for i in 0..=n + 1 {
                    let p = occ.iter().rposition(|&(_, p)| p <= i);
                    let s = Start::WmPred(i, v);
                    if sel(&s) { run_it!(ctx, parent, s, "WaveletMatrix.predecessor", false, pos_depth, &only, wm.predecessor(i, v), p.map(|r| occ[r..].to_vec()).unwrap_or_default(), None); }
                    let q = occ.iter().position(|&(_, p)| p >= i);
                    let s = Start::WmSucc(i, v);
                    if sel(&s) { run_it!(ctx, parent, s, "WaveletMatrix.successor", false, pos_depth, &only, wm.successor(i, v), q.map(|r| occ[r..].to_vec()).unwrap_or_default(), None); }
                }
            }
        }
    }
}

fn explore(ctx: &mut Ctx) {
    vcore::model::self_check().expect("reference model self-check failed");
    let thorough = ctx.tier.is_thorough();
    let (depth, pos_depth) = if thorough { (8, 5) } else { (6, 4) };
    let n = ctx.tier.pick(7, 8);
    let mut parents: Vec<Parent> = Vec::new();
    for len in 0..=n {
        for word in 0..(1u64 << len) {
            let d = BitsDesc::Word { len, word };
            parents.push(Parent::Bv(d.clone()));
            parents.push(Parent::Sparse(d.clone()));
            parents.push(Parent::Rl(d));
        }
    }
    // Word-boundary parents: iterators that cross 64-bit words and empty words.
    // ... and parents whose length is an exact multiple of the word size (the last word is full).
    for d in [BitsDesc::Runs { pairs: vec![(62, 3), (63, 1), (1, 2)], tail: 0 }, BitsDesc::Runs { pairs: vec![(0, 1), (127, 1), (0, 1)], tail: 64 }, BitsDesc::Runs { pairs: vec![(64, 64)], tail: 1 },
              BitsDesc::Runs { pairs: vec![(10, 1), (52, 1)], tail: 0 }, BitsDesc::Runs { pairs: vec![(0, 63)], tail: 1 }, BitsDesc::Runs { pairs: vec![(0, 64), (63, 1)], tail: 0 }] {
        parents.push(Parent::Bv(d.clone()));
        parents.push(Parent::Sparse(d.clone()));
        parents.push(Parent::Rl(d));
    }
    // Multi-block run-length parents: a block that ends in padding, then more runs (positioned
    // iterators must cross the block boundary with consecutive ranks).
    {
        let mut pairs: Vec<(u64, u64)> = std::iter::repeat((1u64, 1u64)).take(31).collect();
        pairs.push((1, 9)); // needs 3 code units: does not fit into the 2 units left in the first block
        pairs.extend(std::iter::repeat((2u64, 1u64)).take(3));
        parents.push(Parent::Rl(BitsDesc::Runs { pairs: pairs.clone(), tail: 2 }));
        let mut pairs2: Vec<(u64, u64)> = std::iter::repeat((1u64, 2u64)).take(30).collect();
        pairs2.push((70, 70)); // 3 + 3 units: closes the first block early with 4 units of padding
        pairs2.push((1, 1));
        parents.push(Parent::Rl(BitsDesc::Runs { pairs: pairs2, tail: 0 }));
        {
            parents.push(Parent::Bv(BitsDesc::Runs { pairs: pairs.clone(), tail: 2 }));
            parents.push(Parent::Sparse(BitsDesc::Runs { pairs, tail: 2 }));
        }
    }
    // Plain bitvectors over complemented raw vectors (the unused bits of the last word must stay clear).
    for len in 0..=5usize {
        for word in 0..(1u64 << len) {
            parents.push(Parent::BvComplement(BitsDesc::Word { len, word }));
        }
    }
    for d in [BitsDesc::Runs { pairs: vec![(0, 63)], tail: 1 }, BitsDesc::Runs { pairs: vec![(3, 60), (4, 3)], tail: 0 }, BitsDesc::Runs { pairs: vec![(0, 1)], tail: 136 }] {
        parents.push(Parent::BvComplement(d));
    }
    // Loaded structures hand out the same iterators: all parents of <= 4 bits and many-block / multi-superblock
    // parents after serialize + load (the rebuilt indexes of a loaded vector are separate code).
    for len in 0..=4usize {
        for word in 0..(1u64 << len) {
            let d = BitsDesc::Word { len, word };
            parents.push(Parent::BvLoaded(d.clone()));
            parents.push(Parent::SparseLoaded(d.clone()));
            parents.push(Parent::RlLoaded(d));
        }
    }
    {
        // ~20 blocks of short runs spread evenly over the universe (block starts fall into several buckets of
        // the sample indexes) ...
        let even: Vec<(u64, u64)> = (0..640u64).map(|i| (1 + i % 3, 1 + i % 2)).collect();
        parents.push(Parent::RlLoaded(BitsDesc::Runs { pairs: even.clone(), tail: 9 }));
        parents.push(Parent::Rl(BitsDesc::Runs { pairs: even, tail: 9 }));
        // ... and the same followed by a long gap and a final run (all block starts in the first bucket)
        let mut pairs: Vec<(u64, u64)> = (0..640u64).map(|i| (1 + i % 3, 1 + i % 2)).collect();
        pairs.push((5000, 3));
        parents.push(Parent::RlLoaded(BitsDesc::Runs { pairs: pairs.clone(), tail: 9 }));
        parents.push(Parent::Rl(BitsDesc::Runs { pairs: pairs.clone(), tail: 9 }));
        parents.push(Parent::SparseLoaded(BitsDesc::Runs { pairs: pairs.clone(), tail: 9 }));
        parents.push(Parent::BvLoaded(BitsDesc::Runs { pairs, tail: 9 }));
    }
    // Multisets: every non-decreasing list of <= k values over universes <= u.
    let (u_max, k_max) = if thorough { (6, 6) } else { (5, 5) };
    for universe in 1..=u_max {
        for k in 0..=k_max {
            enumr::words_exact(universe, k, &mut |w| {
                if w.windows(2).all(|p| p[0] <= p[1]) {
                    parents.push(Parent::Multi { universe, values: w.to_vec() });
                }
            });
        }
    }
    for &width in &[1usize, 7, 64] {
        let m = if width == 64 { !0u64 } else { (1u64 << width) - 1 };
        for k in 0..=ctx.tier.pick(5, 7) {
            enumr::words_exact(2, k, &mut |w| {
                parents.push(Parent::Int { width, values: w.iter().map(|&b| if b == 1 { m } else { 0 }).collect() });
            });
        }
    }
    let scopes: Vec<(usize, usize)> = if thorough { vec![(1, 7), (2, 5), (3, 4)] } else { vec![(1, 6), (2, 4), (3, 3)] };
    for (w, l) in scopes {
        enumr::words(1 << w, l, |word| parents.push(Parent::Wm(word.iter().map(|&x| x as u64).collect())));
    }
    parents.sort_by_key(|p| vcore::ctx::hash_of(p));
    parents.dedup();
    for p in &parents {
        if ctx.mine(p) {
            ctx.count("parents", 1);
            explore_parent(ctx, p, depth, pos_depth, None);
        }
    }
}

fn replay(ctx: &mut Ctx, v: &Value) {
    if v.get("start").is_none() {
        // A case pinned while the parent was being set up: build the parent and position every iterator once.
        let parent: Parent = serde_json::from_value(v["parent"].clone()).expect("replay: not a C10 case");
        explore_parent(ctx, &parent, 1, 1, None);
        return;
    }
    let c: Case = serde_json::from_value(v.clone()).expect("replay: not a C10 case");
    explore_parent(ctx, &c.parent, usize::MAX, usize::MAX, Some((&c.start, &c.acts)));
}

fn main() {
    vcore::run_driver("C10", explore, replay, hook_hits);
}
