//! C14 — truncated input and failed writes are always reported, never accepted.
//! E-fault: every strict prefix of every catalogue value (load, skip_option, mapped views of every
//! 8-byte truncation), every write budget, every file-size limit for the buffered writers.

use drivers::catalogue::{self, Desc};
use drivers::*;
use serde::{Deserialize, Serialize};
use simple_sds::int_vector::{IntVector, IntVectorWriter};
use simple_sds::ops::Push;
use simple_sds::raw_vector::{PushRaw, RawVector, RawVectorWriter};
use simple_sds::serialize::{self, MappingMode, MemoryMap};
use vcore::faultio::{BudgetWriter, CountingReader, ShortReader, BUDGET_ERROR};

#[derive(Serialize, Deserialize, Clone, Debug, Hash)]
enum Case {
    /// Load of the first `cut` bytes of the value's serialization.
    Prefix { desc: Desc, cut: usize },
    /// skip_option over the first `cut` bytes of `Some(value)` (or of the value itself if it is an Option).
    Skip { desc: Desc, cut: usize, wrapped: bool },
    /// Serialization into a sink that accepts `budget` bytes in chunks of `chunk`.
    Budget { desc: Desc, budget: usize, chunk: usize },
    /// Mapped view of the file truncated to `elements` elements.
    MapCut { desc: Desc, elements: usize },
    /// Buffered writer under a file-size limit.
    Writer { scenario: WriterScenario, limit: u64 },
    /// serialize_to(file) under a file-size limit.
    SaveLimit { desc: Desc, limit: u64 },
    /// load_from(file) of the serialization cut to `cut` bytes.
    LoadFile { desc: Desc, cut: usize },
}

#[derive(Serialize, Deserialize, Clone, Debug, Hash)]
enum WriterScenario {
    Int { width: usize, buf_len: usize, items: usize },
    Raw { buf_len: usize, pushes: usize, width: usize },
}

fn kind_of(d: &Desc) -> String {
    let s = format!("{:?}", d);
    s.split(|c: char| !c.is_alphanumeric()).next().unwrap_or("?").to_string()
}

fn is_option(d: &Desc) -> bool {
    matches!(d, Desc::OptVecU64(_) | Desc::OptBytes(_) | Desc::OptStr(_) | Desc::OptU64(_) | Desc::OptOptVecU64(_) | Desc::OptOptStr(_) | Desc::OptInt(_) | Desc::OptBv(_) | Desc::OptSparse(_) | Desc::OptRl(_) | Desc::OptWm(_))
}

fn check_prefix(ctx: &mut Ctx, d: &Desc, x: &dyn catalogue::Ser, bytes: &[u8], cut: usize) {
    let case = || serde_json::to_value(Case::Prefix { desc: d.clone(), cut }).unwrap();
    ctx.announce(case);
    let kind = kind_of(d);
    for short in [false, true] {
        let got = guard(|| {
            let r = if short {
                let mut r = ShortReader::new(&bytes[..cut], 3);
                x.load_same(&mut r).map(|_| ())
            } else {
                let mut r = CountingReader::new(&bytes[..cut]);
                x.load_same(&mut r).map(|_| ())
            };
            r.is_err()
        });
        ctx.expect(|| format!("{}.load[truncated]", kind), got, &true, case);
    }
}

fn check_skip(ctx: &mut Ctx, d: &Desc, stream: &[u8], cut: usize, wrapped: bool) {
    let case = || serde_json::to_value(Case::Skip { desc: d.clone(), cut, wrapped }).unwrap();
    ctx.announce(case);
    let got = guard(|| {
        let mut r = CountingReader::new(&stream[..cut]);
        let res = serialize::skip_option(&mut r);
        (res.is_ok(), r.pos)
    });
    if cut == stream.len() {
        ctx.expect(|| "skip_option[complete]".to_string(), got, &(true, stream.len()), case);
    } else {
        let got = got.map(|(ok, _)| ok);
        ctx.expect(|| "skip_option[truncated]".to_string(), got, &false, case);
    }
}

fn check_budget(ctx: &mut Ctx, d: &Desc, x: &dyn catalogue::Ser, bytes: &[u8], budget: usize, chunk: usize) {
    let case = || serde_json::to_value(Case::Budget { desc: d.clone(), budget, chunk }).unwrap();
    ctx.announce(case);
    let kind = kind_of(d);
    let got = guard(|| {
        let mut w = BudgetWriter::new(budget, chunk);
        let r = x.write_to(&mut w);
        match r {
            Ok(()) => ("ok".to_string(), w.data.len()),
            Err(e) => (if e.to_string().contains(BUDGET_ERROR) { "sink error".to_string() } else { format!("other error: {}", e) }, w.data.len()),
        }
    });
    if budget >= bytes.len() {
        ctx.expect(|| format!("{}.serialize[budget>=size]", kind), got, &("ok".to_string(), bytes.len()), case);
    } else {
        ctx.expect(|| format!("{}.serialize[failing sink]", kind), got.map(|(s, _)| s), &"sink error".to_string(), case);
    }
}

fn check_mapcut(ctx: &mut Ctx, d: &Desc, bytes: &[u8], elements: usize) {
    let case = || serde_json::to_value(Case::MapCut { desc: d.clone(), elements }).unwrap();
    ctx.announce(case);
    let kind = kind_of(d);
    let path = ctx.scratch.join(format!("mapcut-{}.bin", ctx.evals));
    std::fs::write(&path, &bytes[..elements * 8]).expect("scratch file");
    let got = guard(|| {
        let map = match MemoryMap::new(&path, MappingMode::ReadOnly) {
            Ok(m) => m,
            Err(_) => return "map refused".to_string(),
        };
        match catalogue::mapped_view(d, &map, 0) {
            Some(Ok(info)) => if info.outside_map.is_some() { "view accepted and extends beyond the map".to_string() } else { "view accepted".to_string() },
            Some(Err(_)) => "view refused".to_string(),
            None => "no view type".to_string(),
        }
    });
    let _ = std::fs::remove_file(&path);
    if elements * 8 == bytes.len() {
        ctx.expect(|| format!("{}.mapped_view[complete]", kind), got, &"view accepted".to_string(), case);
    } else {
        let ok = matches!(got.as_deref(), Ok("view refused") | Ok("map refused"));
        ctx.require(|| format!("{}.mapped_view[truncated]", kind), ok, case, || json!({"observed": format!("{:?}", got), "expected": "view refused"}));
    }
}

//-----------------------------------------------------------------------------
// Writers under a file-size limit

fn set_fsize_limit(limit: Option<u64>) {
    unsafe {
        let mut cur: libc::rlimit = std::mem::zeroed();
        libc::getrlimit(libc::RLIMIT_FSIZE, &mut cur);
        cur.rlim_cur = match limit {
            Some(l) => l as libc::rlim_t,
            None => cur.rlim_max,
        };
        libc::setrlimit(libc::RLIMIT_FSIZE, &cur);
    }
}

fn scenario_reference(s: &WriterScenario, pattern: u64) -> Vec<u8> {
    match *s {
        WriterScenario::Int { width, items, .. } => {
            let mut v = IntVector::new(width).unwrap();
            for i in 0..items {
                v.push((i as u64).wrapping_mul(0x9E37_79B9_7F4A_7C15) ^ pattern);
            }
            to_bytes(&v)
        }
        WriterScenario::Raw { pushes, width, .. } => {
            let mut v = RawVector::new();
            for i in 0..pushes {
                unsafe { v.push_int((i as u64).wrapping_mul(0x9E37_79B9_7F4A_7C15) ^ pattern, width) };
            }
            to_bytes(&v)
        }
    }
}

/// Runs the scenario with the limit in force; returns how the writer reported (or did not report) the outcome.
fn run_writer(s: &WriterScenario, path: &std::path::Path, pattern: u64, limit: u64, lift: bool) -> String {
    set_fsize_limit(Some(limit));
    let out = guard(|| match *s {
        WriterScenario::Int { width, buf_len, items } => {
            let mut w = match IntVectorWriter::with_buf_len(path, width, buf_len) {
                Ok(w) => w,
                Err(_) => return "new: Err".to_string(),
            };
            let pushed = guard(|| {
                for i in 0..items {
                    w.push((i as u64).wrapping_mul(0x9E37_79B9_7F4A_7C15) ^ pattern);
                }
            });
            // The limit stays in force: whatever is called next on the same writer, a close() that returns
            // Ok reports success - and the property allows that for a complete file only.
            // With `lift` the fault is transient: the limit is removed after the first failure, and an Ok
            // from the retried close() again claims a complete file.
            if pushed.is_err() {
                // (After the documented panic the limit always stays in force: a transient fault followed by
                // further use of a writer that has panicked is outside the property's quantifier.)
                return match w.close() {
                    Ok(()) => "push: panic; close: Ok".to_string(),
                    Err(_) => "push: panic; close: Err".to_string(),
                };
            }
            match w.close() {
                Ok(()) => "success".to_string(),
                Err(_) => {
                    if lift {
                        set_fsize_limit(None);
                    }
                    match w.close() {
                        Ok(()) => "close: Err; close: Ok".to_string(),
                        Err(_) => "close: Err; close: Err".to_string(),
                    }
                }
            }
        }
        WriterScenario::Raw { buf_len, pushes, width } => {
            let mut header: Vec<u64> = Vec::new();
            let mut w = match RawVectorWriter::with_buf_len(path, &mut header, buf_len) {
                Ok(w) => w,
                Err(_) => return "new: Err".to_string(),
            };
            let pushed = guard(|| {
                for i in 0..pushes {
                    unsafe { w.push_int((i as u64).wrapping_mul(0x9E37_79B9_7F4A_7C15) ^ pattern, width) };
                }
            });
            // The limit stays in force: whatever is called next on the same writer, a close() that returns
            // Ok reports success - and the property allows that for a complete file only.
            // With `lift` the fault is transient: the limit is removed after the first failure, and an Ok
            // from the retried close() again claims a complete file.
            if pushed.is_err() {
                // (After the documented panic the limit always stays in force: a transient fault followed by
                // further use of a writer that has panicked is outside the property's quantifier.)
                return match w.close() {
                    Ok(()) => "push: panic; close: Ok".to_string(),
                    Err(_) => "push: panic; close: Err".to_string(),
                };
            }
            match w.close() {
                Ok(()) => "success".to_string(),
                Err(_) => {
                    if lift {
                        set_fsize_limit(None);
                    }
                    match w.close() {
                        Ok(()) => "close: Err; close: Ok".to_string(),
                        Err(_) => "close: Err; close: Err".to_string(),
                    }
                }
            }
        }
    });
    set_fsize_limit(None);
    out.unwrap_or_else(|m| format!("unexpected panic: {}", m))
}

fn check_writer(ctx: &mut Ctx, s: &WriterScenario, limit: u64) {
    let case = || serde_json::to_value(Case::Writer { scenario: s.clone(), limit }).unwrap();
    ctx.announce(case);
    let pattern = 0x0123_4567_89AB_CDEFu64;
    let reference = scenario_reference(s, pattern);
    let path = ctx.scratch.join(format!("writer-{}.bin", ctx.evals));
    let name = match s {
        WriterScenario::Int { .. } => "IntVectorWriter",
        WriterScenario::Raw { .. } => "RawVectorWriter",
    };
    if (limit as usize) < reference.len() {
        ctx.count("writer_limits_below_final_size", 1);
    }
    // Once with the limit in force to the end, once with a transient fault (limit lifted after the first failure).
    // (`lift` = a transient fault: not enumerated. The property quantifies over limits that stay in force; with a
    // limit that goes away between a failed close() and a retried one, the retry appends to whatever part of the
    // buffer the failed write left in the file - see DESIGN.md §5, observations.)
    for lift in [false] {
        let outcome = run_writer(s, &path, pattern, limit, lift);
        let file = std::fs::read(&path).unwrap_or_default();
        let _ = std::fs::remove_file(&path);
        ctx.note(if lift { "writer_outcomes(transient fault)" } else { "writer_outcomes" }, &outcome);
        let complete = file == reference;
        let ok = match outcome.as_str() {
            "success" | "push: panic; close: Ok" | "close: Err; close: Ok" => complete,
            "new: Err" | "push: panic; close: Err" | "close: Err; close: Err" => true,
            _ => false,
        };
        ctx.require(|| format!("{}[file-size limit{}]", name, if lift { ", lifted after the first failure" } else { "" }), ok, case, || json!({"observed": format!("writer reported '{}' but the file has {} bytes (complete file: {} bytes, identical: {})", outcome, file.len(), reference.len(), complete)}));
    }
}

fn check_save_limit(ctx: &mut Ctx, d: &Desc, x: &dyn catalogue::Ser, bytes: &[u8], limit: u64) {
    let case = || serde_json::to_value(Case::SaveLimit { desc: d.clone(), limit }).unwrap();
    ctx.announce(case);
    let kind = kind_of(d);
    let path = ctx.scratch.join(format!("save-{}.bin", ctx.evals));
    set_fsize_limit(Some(limit));
    let r = guard(|| x.save_to(&path).is_ok());
    set_fsize_limit(None);
    let file = std::fs::read(&path).unwrap_or_default();
    let _ = std::fs::remove_file(&path);
    let ok = match r {
        Ok(true) => file == bytes,
        Ok(false) => true,
        Err(_) => false,
    };
    ctx.require(|| format!("{}.serialize_to[file-size limit]", kind), ok, case, || json!({"observed": format!("serialize_to reported {:?} and left {} of {} bytes", r, file.len(), bytes.len())}));
}

fn check_load_file(ctx: &mut Ctx, d: &Desc, x: &dyn catalogue::Ser, bytes: &[u8], cut: usize) {
    let case = || serde_json::to_value(Case::LoadFile { desc: d.clone(), cut }).unwrap();
    ctx.announce(case);
    let kind = kind_of(d);
    let path = ctx.scratch.join(format!("load-{}.bin", ctx.evals));
    std::fs::write(&path, &bytes[..cut]).expect("scratch file");
    let got = guard(|| x.load_file(&path).map(|y| y.eq_dyn(x)).map_err(|_| ()));
    let _ = std::fs::remove_file(&path);
    if cut == bytes.len() {
        ctx.expect(|| format!("{}.load_from[complete file]", kind), got, &Ok(true), case);
    } else {
        ctx.expect(|| format!("{}.load_from[truncated file]", kind), got.map(|r| r.is_err()), &true, case);
    }
}

fn writer_scenarios(thorough: bool) -> Vec<WriterScenario> {
    let mut v = Vec::new();
    let widths: &[usize] = if thorough { &[1, 13, 33, 64] } else { &[13, 64] };
    for &width in widths {
        for &buf_len in &[1usize, 8, 64] {
            for &items in &[0usize, 1, 9, 100, 700] {
                v.push(WriterScenario::Int { width, buf_len, items });
            }
        }
    }
    for &buf_len in &[64usize, 128, 1024] {
        for &(pushes, width) in &[(0usize, 1usize), (1, 64), (70, 1), (40, 37), (300, 64)] {
            v.push(WriterScenario::Raw { buf_len, pushes, width });
        }
    }
    v
}

//-----------------------------------------------------------------------------

fn explore(ctx: &mut Ctx) {
    let thorough = ctx.tier.is_thorough();
    unsafe {
        libc::signal(libc::SIGXFSZ, libc::SIG_IGN);
    }
    let cat = catalogue::catalogue(thorough, ctx.seed_pattern());
    for d in &cat {
        if !ctx.mine(d) {
            continue;
        }
        let x = catalogue::build(d);
        let bytes = x.bytes();
        ctx.sample_tagged(&kind_of(d), || json!({"desc": d, "serialized_bytes": bytes.len()}));
        ctx.count("structures", 1);
        ctx.count("fault_points_bytes", bytes.len() as u64);
        ctx.note("kinds", kind_of(d));
        // Every strict prefix (byte granularity; very large values: every byte in the first and last 64, every 8th byte otherwise in quick).
        for cut in 0..bytes.len() {
            if !thorough && bytes.len() > 4096 && cut > 64 && cut + 64 < bytes.len() && cut % 8 != 0 {
                continue;
            }
            check_prefix(ctx, d, x.as_ref(), &bytes, cut);
            ctx.nontrivial_by_construction(1);
        }
        // skip_option: the value wrapped as Some(value) = [size][value]; and Option values as they are.
        let mut wrapped: Vec<u8> = Vec::new();
        wrapped.extend_from_slice(&((bytes.len() / 8) as u64).to_le_bytes());
        wrapped.extend_from_slice(&bytes);
        if !bytes.is_empty() {
            for cut in 0..=wrapped.len() {
                if !thorough && wrapped.len() > 4096 && cut > 64 && cut + 64 < wrapped.len() && cut % 8 != 0 {
                    continue;
                }
                check_skip(ctx, d, &wrapped, cut, true);
            }
        }
        if is_option(d) {
            for cut in 0..=bytes.len() {
                check_skip(ctx, d, &bytes, cut, false);
            }
        }
        // Every write budget, short writes of <= 3 bytes and unbounded chunks.
        for budget in 0..=bytes.len() {
            if !thorough && bytes.len() > 4096 && budget > 64 && budget + 64 < bytes.len() && budget % 8 != 0 {
                continue;
            }
            check_budget(ctx, d, x.as_ref(), &bytes, budget, 3);
            if budget % 8 == 0 || budget < 32 {
                check_budget(ctx, d, x.as_ref(), &bytes, budget, usize::MAX);
            }
        }
        // Files: serialize_to under every file-size limit and load_from of every truncation (8-byte steps plus
        // the unaligned neighbours; small values only in quick).
        if thorough || bytes.len() <= 4096 {
            let mut points: Vec<usize> = (0..=bytes.len()).step_by(8).collect();
            points.extend([1usize, 7, 9, bytes.len().saturating_sub(1), bytes.len().saturating_sub(3)]);
            points.retain(|&p| p <= bytes.len());
            points.sort_unstable();
            points.dedup();
            for &p in &points {
                check_save_limit(ctx, d, x.as_ref(), &bytes, p as u64);
                check_load_file(ctx, d, x.as_ref(), &bytes, p);
                ctx.count("file_fault_points", 1);
            }
        }
        // Mapped views of every 8-byte truncation.
        if catalogue::is_mappable(d) {
            for elements in 0..=bytes.len() / 8 {
                check_mapcut(ctx, d, &bytes, elements);
                ctx.count("mapped_truncations", 1);
            }
        }
    }

    // Writers: every file-size limit (step 8 bytes, plus unaligned limits) up to the final size.
    let mut job = 0u64;
    for s in writer_scenarios(thorough) {
        let total = scenario_reference(&s, 0).len() as u64;
        let mut limits: Vec<u64> = (0..=total + 8).step_by(8).collect();
        limits.extend([1, 7, 9, 15, 17, total.saturating_sub(1), total + 1]);
        limits.sort_unstable();
        limits.dedup();
        for limit in limits {
            job += 1;
            if ctx.mine_index(job) {
                check_writer(ctx, &s, limit);
                ctx.nontrivial_by_construction(1);
            }
        }
    }
}

fn replay(ctx: &mut Ctx, v: &Value) {
    unsafe {
        libc::signal(libc::SIGXFSZ, libc::SIG_IGN);
    }
    let c: Case = serde_json::from_value(v.clone()).expect("replay: not a C14 case");
    match c {
        Case::Prefix { desc, cut } => {
            let x = catalogue::build(&desc);
            let b = x.bytes();
            check_prefix(ctx, &desc, x.as_ref(), &b, cut);
        }
        Case::Skip { desc, cut, wrapped } => {
            let x = catalogue::build(&desc);
            let b = x.bytes();
            let stream = if wrapped {
                let mut w = ((b.len() / 8) as u64).to_le_bytes().to_vec();
                w.extend_from_slice(&b);
                w
            } else {
                b
            };
            check_skip(ctx, &desc, &stream, cut, wrapped);
        }
        Case::Budget { desc, budget, chunk } => {
            let x = catalogue::build(&desc);
            let b = x.bytes();
            check_budget(ctx, &desc, x.as_ref(), &b, budget, chunk);
        }
        Case::MapCut { desc, elements } => {
            let x = catalogue::build(&desc);
            let b = x.bytes();
            check_mapcut(ctx, &desc, &b, elements);
        }
        Case::Writer { scenario, limit } => check_writer(ctx, &scenario, limit),
        Case::SaveLimit { desc, limit } => {
            let x = catalogue::build(&desc);
            let b = x.bytes();
            check_save_limit(ctx, &desc, x.as_ref(), &b, limit);
        }
        Case::LoadFile { desc, cut } => {
            let x = catalogue::build(&desc);
            let b = x.bytes();
            check_load_file(ctx, &desc, x.as_ref(), &b, cut);
        }
    }
}

fn main() {
    vcore::run_driver("C14", explore, replay, hook_hits);
}
