//! C18 — memory maps are valid while alive, fully released on drop, and fail loudly.
//! E-hist: every sequence of map / drop / write / read-compare actions up to a depth bound over a fixed
//! set of files (at most 3 live maps). Handles cannot be cloned, so every history is executed from the
//! start; the oracle is the process's own address space (/proc/self/maps) plus the file contents.

use drivers::*;
use serde::{Deserialize, Serialize};
use simple_sds::serialize::{MappingMode, MemoryMap};
use std::fs::{File, OpenOptions};
use std::io::Read;
use std::os::unix::fs::FileExt;
use std::path::PathBuf;

const MAX_LIVE: usize = 3;
const WRITE_VALUE: u64 = 0xA5A5_5A5A_C3C3_3C3C;
/// A map whose own idea of its range is wrong is never dropped (its `Drop` would unmap memory that is
/// not its own); it is leaked, which leaks its file descriptor, so the exploration stops after this many.
const MAX_FORGOTTEN: u64 = 256;

//-----------------------------------------------------------------------------
// The finite alphabet: files, modes, actions.

#[derive(Serialize, Deserialize, Clone, Copy, Debug, PartialEq, Eq, Hash)]
enum F {
    Empty,
    B8,
    B4088,
    B4096,
    B4104,
    B8192,
    B65536,
    MiBPlus8,
    B12,
    Missing,
    B4,
    B4100,
    /// A symbolic link to a regular file of 4096 bytes (the map must be that of the file behind the link).
    Link4096,
}

const ALL_FILES: [F; 13] = [F::Empty, F::B8, F::B4088, F::B4096, F::B4104, F::B8192, F::B65536, F::MiBPlus8, F::B12, F::Missing, F::B4, F::B4100, F::Link4096];
/// Depth-5 file set of the thorough tier: the empty file, one sub-page, one exact-page and three
/// multi-page files (2, 16 and 257 pages) and the file whose size is not a multiple of 8.
const REDUCED_FILES: [F; 7] = [F::Empty, F::B8, F::B4096, F::B4104, F::B65536, F::MiBPlus8, F::B12];

impl F {
    fn id(self) -> usize {
        self as usize
    }

    /// Size in bytes; `None` = the path does not exist.
    fn size(self) -> Option<usize> {
        match self {
            F::Empty => Some(0),
            F::B8 => Some(8),
            F::B4088 => Some(4088),
            F::B4096 => Some(4096),
            F::B4104 => Some(4104),
            F::B8192 => Some(8192),
            F::B65536 => Some(65536),
            F::MiBPlus8 => Some((1 << 20) + 8),
            F::B12 => Some(12),
            F::Missing => None,
            F::B4 => Some(4),
            F::B4100 => Some(4100),
            F::Link4096 => Some(4096),
        }
    }

    /// Must `MemoryMap::new` succeed? (exists, size a multiple of 8, and the OS accepts the mapping:
    /// mmap refuses length 0 with EINVAL.)
    fn mappable(self) -> bool {
        matches!(self.size(), Some(n) if n > 0 && n % 8 == 0)
    }

    fn elements(self) -> usize {
        self.size().unwrap_or(0) / 8
    }

    fn class(self, page: usize) -> &'static str {
        match self.size() {
            None => "missing",
            Some(0) => "empty-file",
            Some(n) if n % 8 != 0 => "not-multiple-of-8",
            Some(n) if n < page => "sub-page",
            Some(n) if n == page => "one-page",
            Some(_) => "multi-page",
        }
    }

    fn why_err(self) -> &'static str {
        match self.size() {
            None => "Err (the file does not exist)",
            Some(0) => "Err (the OS refuses a zero-length mapping: mmap fails with EINVAL), or Ok with a non-null 8-aligned pointer and len() = 0",
            _ => "Err (the file size is not a multiple of 8)",
        }
    }
}

#[derive(Serialize, Deserialize, Clone, Copy, Debug, PartialEq, Eq, Hash)]
enum Mode {
    ReadOnly,
    Mutable,
}

impl Mode {
    fn lib(self) -> MappingMode {
        match self {
            Mode::ReadOnly => MappingMode::ReadOnly,
            Mode::Mutable => MappingMode::Mutable,
        }
    }
}

#[derive(Serialize, Deserialize, Clone, Copy, Debug, PartialEq, Eq, Hash)]
enum Pos {
    First,
    Mid,
    Last,
}

impl Pos {
    fn index(self, len: usize) -> usize {
        match self {
            Pos::First => 0,
            Pos::Mid => len / 2,
            Pos::Last => len - 1,
        }
    }
}

/// Handle indices refer to the ordered list of live maps (creation order; a drop shifts later ones down).
#[derive(Serialize, Deserialize, Clone, Copy, Debug, PartialEq, Eq, Hash)]
enum Act {
    Map { file: F, mode: Mode },
    Drop(usize),
    Write { h: usize, pos: Pos, value: u64 },
    Read(usize),
}

#[derive(Serialize, Deserialize, Clone, Debug)]
struct Case {
    acts: Vec<Act>,
}

/// The actions available in a (reference) state = list of live (file, mode).
fn actions(state: &[(F, Mode)], files: &[F], values: &[u64]) -> Vec<Act> {
    let mut a = Vec::new();
    if state.len() < MAX_LIVE {
        for &file in files {
            for mode in [Mode::ReadOnly, Mode::Mutable] {
                a.push(Act::Map { file, mode });
            }
        }
    }
    for (h, &(f, mode)) in state.iter().enumerate() {
        a.push(Act::Drop(h));
        a.push(Act::Read(h));
        if mode == Mode::Mutable {
            let len = f.elements();
            let mut seen: Vec<usize> = Vec::new();
            for pos in [Pos::First, Pos::Mid, Pos::Last] {
                let i = pos.index(len);
                if !seen.contains(&i) {
                    seen.push(i);
                    for &value in values {
                        a.push(Act::Write { h, pos, value });
                    }
                }
            }
        }
    }
    a
}

fn model_step(state: &mut Vec<(F, Mode)>, act: &Act) {
    match *act {
        Act::Map { file, mode } => {
            if file.mappable() {
                state.push((file, mode));
            }
        }
        Act::Drop(h) => {
            state.remove(h);
        }
        _ => {}
    }
}

//-----------------------------------------------------------------------------
// The world: files, reference contents, the address-space observer.

fn pattern(fid: usize, i: usize) -> u64 {
    ((fid as u64 + 1) << 56) ^ (i as u64 + 1).wrapping_mul(0x9E37_79B9_7F4A_7C15)
}

#[derive(Clone, Debug)]
struct Vma {
    start: usize,
    end: usize,
    perms: String,
    /// Index of the test file, or usize::MAX for an unknown path below the scratch prefix.
    fid: usize,
}

struct World {
    page: usize,
    prefix: String,
    paths: Vec<PathBuf>,
    names: Vec<String>,
    initial: Vec<Vec<u8>>,
    content: Vec<Vec<u64>>,
    writers: Vec<Option<File>>,
    dirty: Vec<(usize, usize)>,
    buf: String,
    forgotten: u64,
}

fn round_up(n: usize, page: usize) -> usize {
    (n + page - 1) / page * page
}

impl World {
    fn new(ctx: &Ctx) -> World {
        std::fs::create_dir_all(&ctx.scratch).expect("cannot create the scratch directory");
        let dir = std::fs::canonicalize(&ctx.scratch).expect("cannot canonicalize the scratch directory");
        let page = unsafe { libc::sysconf(libc::_SC_PAGESIZE) } as usize;
        assert!(page >= 8 && page.is_power_of_two(), "unexpected page size");
        let prefix = format!("{}/c18-", dir.to_str().expect("scratch path is not UTF-8"));
        let mut w = World { page, prefix, paths: vec![], names: vec![], initial: vec![], content: vec![], writers: vec![], dirty: vec![], buf: String::new(), forgotten: 0 };
        for f in ALL_FILES {
            let mut name = format!("{}{:?}.bin", w.prefix, f);
            let path = PathBuf::from(&name);
            if f == F::Link4096 {
                // `name` is what /proc shows for mappings and descriptors: the file behind the link
                name = format!("{}{:?}-target-of-the-link.bin", w.prefix, f);
                let _ = std::fs::remove_file(&path);
                std::os::unix::fs::symlink(&name, &path).expect("cannot create a symbolic link");
            }
            let mut bytes: Vec<u8> = Vec::new();
            let mut words: Vec<u64> = Vec::new();
            match f.size() {
                None => {
                    let _ = std::fs::remove_file(&path);
                }
                Some(n) => {
                    for i in 0..(n + 7) / 8 {
                        let x = pattern(f.id(), i);
                        words.push(x);
                        bytes.extend_from_slice(&x.to_le_bytes());
                    }
                    bytes.truncate(n);
                    if n % 8 != 0 {
                        words.clear();
                    }
                    std::fs::write(if f == F::Link4096 { PathBuf::from(&name) } else { path.clone() }, &bytes).expect("cannot create a test file");
                }
            }
            w.paths.push(path);
            w.names.push(name);
            w.initial.push(bytes);
            w.content.push(words);
            w.writers.push(None);
        }
        w
    }

    /// The mappings of this process that belong to test files (path below the scratch prefix).
    fn read_maps(&mut self) -> Vec<Vma> {
        self.buf.clear();
        File::open("/proc/self/maps").and_then(|mut f| f.read_to_string(&mut self.buf)).expect("cannot read /proc/self/maps");
        let mut out = Vec::new();
        for line in self.buf.lines() {
            if !line.contains(self.prefix.as_str()) {
                continue;
            }
            let mut it = line.splitn(6, ' ');
            let (range, perms) = (it.next().unwrap_or(""), it.next().unwrap_or(""));
            let path = it.nth(3).unwrap_or("").trim_start();
            if !path.starts_with(self.prefix.as_str()) {
                continue;
            }
            let (s, e) = range.split_once('-').expect("malformed /proc/self/maps line");
            let start = usize::from_str_radix(s, 16).expect("malformed /proc/self/maps address");
            let end = usize::from_str_radix(e, 16).expect("malformed /proc/self/maps address");
            let fid = self.names.iter().position(|n| n == path).unwrap_or(usize::MAX);
            out.push(Vma { start, end, perms: perms.to_string(), fid });
        }
        out
    }

    /// Unmaps every page of a test-file mapping that lies outside the `keep` ranges.
    /// Returns (regions, bytes) removed.
    fn sweep(&mut self, vmas: &[Vma], keep: &[(usize, usize)]) -> (u64, u64) {
        let (mut regions, mut bytes) = (0u64, 0u64);
        for v in vmas {
            let mut pieces = vec![(v.start, v.end)];
            for &(klo, khi) in keep {
                let mut next = Vec::new();
                for (lo, hi) in pieces {
                    if khi <= lo || klo >= hi {
                        next.push((lo, hi));
                    } else {
                        if lo < klo {
                            next.push((lo, klo));
                        }
                        if khi < hi {
                            next.push((khi, hi));
                        }
                    }
                }
                pieces = next;
            }
            for (lo, hi) in pieces {
                let r = unsafe { libc::munmap(lo as *mut libc::c_void, hi - lo) };
                assert_eq!(r, 0, "harness: munmap of a stale mapping failed");
                regions += 1;
                bytes += (hi - lo) as u64;
            }
        }
        (regions, bytes)
    }

    /// Restores the files changed by the last history to their initial content.
    fn restore(&mut self) {
        let dirty = std::mem::take(&mut self.dirty);
        for (fid, idx) in dirty {
            if self.writers[fid].is_none() {
                self.writers[fid] = Some(OpenOptions::new().read(true).write(true).open(&self.paths[fid]).expect("cannot reopen a test file"));
            }
            let x = pattern(fid, idx);
            let file = self.writers[fid].as_ref().unwrap();
            file.write_all_at(&x.to_le_bytes(), idx as u64 * 8).expect("cannot restore a test file");
            let mut back = [0u8; 8];
            file.read_exact_at(&mut back, idx as u64 * 8).expect("cannot re-read a test file");
            assert_eq!(u64::from_le_bytes(back), x, "harness: restoring a test file failed");
            self.content[fid][idx] = x;
        }
    }

    /// Harness self-check at the end: the files are exactly as created and nothing is mapped.
    fn final_check(&mut self) {
        for f in ALL_FILES {
            if f.size().is_some() {
                let bytes = std::fs::read(&self.paths[f.id()]).expect("cannot read a test file");
                assert!(bytes == self.initial[f.id()], "harness: test file {:?} was not restored", f);
            } else {
                assert!(!self.paths[f.id()].exists(), "harness: the missing file exists");
            }
        }
        assert!(self.read_maps().is_empty(), "harness: test files are still mapped at the end");
    }
}

/// Bytes of [lo, hi) that are covered by mappings of file `fid`.
fn covered(vmas: &[Vma], fid: usize, lo: usize, hi: usize) -> usize {
    vmas.iter().filter(|v| v.fid == fid).map(|v| v.end.min(hi).saturating_sub(v.start.max(lo))).sum()
}

fn show(vmas: &[Vma]) -> Vec<String> {
    vmas.iter().map(|v| format!("{:x}-{:x} {} file#{}", v.start, v.end, v.perms, if v.fid == usize::MAX { -1 } else { v.fid as i64 })).collect()
}

fn first_mismatch(got: &[u64], want: &[u64]) -> Option<String> {
    if got.len() != want.len() {
        return Some(format!("slice has {} elements, the file has {}", got.len(), want.len()));
    }
    got.iter().zip(want.iter()).position(|(a, b)| a != b).map(|i| format!("element {} of {} is {:#x}, the file content is {:#x}", i, want.len(), got[i], want[i]))
}

struct Live {
    map: MemoryMap,
    f: F,
    mode: Mode,
    len: usize,
    base: usize,
    wrote: bool,
    /// Inaccessible guard pages the harness placed directly before / after the mapping (if those addresses
    /// were free): a drop that unmaps more than the map hits them instead of unrelated memory, and their
    /// disappearance is a deterministic, replayable observation.
    guard_before: Option<usize>,
    guard_after: Option<usize>,
}

fn place_guard(addr: usize, page: usize) -> Option<usize> {
    if addr == 0 {
        return None;
    }
    let p = unsafe { libc::mmap(addr as *mut libc::c_void, page, libc::PROT_NONE, libc::MAP_PRIVATE | libc::MAP_ANONYMOUS | libc::MAP_FIXED_NOREPLACE, -1, 0) };
    if p == libc::MAP_FAILED {
        None
    } else if p as usize != addr {
        unsafe { libc::munmap(p, page) };
        None
    } else {
        Some(addr)
    }
}

fn is_mapped(addr: usize, page: usize) -> bool {
    let mut v = [0u8; 1];
    unsafe { libc::mincore(addr as *mut libc::c_void, page, v.as_mut_ptr()) == 0 }
}

/// Returns a description if a guard page is gone; removes the guards that remain.
fn check_and_remove_guards(before: Option<usize>, after: Option<usize>, page: usize) -> Option<String> {
    let mut problem = None;
    for (g, what) in [(before, "before"), (after, "after")] {
        if let Some(addr) = g {
            if is_mapped(addr, page) {
                unsafe { libc::munmap(addr as *mut libc::c_void, page) };
            } else {
                problem = Some(format!("the page directly {} the mapping (a guard page at {:#x}) was unmapped by the drop", what, addr));
            }
        }
    }
    problem
}

impl Live {
    fn range(&self, page: usize) -> (usize, usize) {
        (self.base, self.base + round_up(self.len * 8, page))
    }
}

/// Every live map is still completely mapped to its file.
fn live_problem(w: &World, vmas: &[Vma], live: &[Live]) -> Option<String> {
    for (j, l) in live.iter().enumerate() {
        let (lo, hi) = l.range(w.page);
        let c = covered(vmas, l.f.id(), lo, hi);
        if c != hi - lo {
            return Some(format!("live map #{} of {:?} at {:#x}: only {:#x} of {:#x} bytes are still mapped to the file", j, l.f, lo, c, hi - lo));
        }
    }
    None
}

/// Open descriptors of this process that refer to test files: (descriptor, file id).
fn test_file_fds(w: &World) -> Vec<(i32, usize)> {
    let mut out = Vec::new();
    if let Ok(dir) = std::fs::read_dir("/proc/self/fd") {
        for e in dir.flatten() {
            if let (Ok(fd), Ok(target)) = (e.file_name().to_string_lossy().parse::<i32>(), std::fs::read_link(e.path())) {
                if let Some(fid) = w.names.iter().position(|n| std::path::Path::new(n) == target) {
                    out.push((fd, fid));
                }
            }
        }
    }
    out
}

/// "Fully released": a map may keep its file open while it is alive, but once it is dropped nothing of it
/// stays behind. More descriptors to a test file than (live maps of that file + the harness's own writer).
fn fd_problem(w: &World, live: &[Live]) -> Option<String> {
    let fds = test_file_fds(w);
    for fid in 0..w.paths.len() {
        let have = fds.iter().filter(|(_, f)| *f == fid).count();
        let allowed = live.iter().filter(|l| l.f.id() == fid).count() + w.writers[fid].is_some() as usize;
        if have > allowed {
            return Some(format!("{} open descriptors refer to {} but only {} live maps of it exist", have - w.writers[fid].is_some() as usize, w.names[fid], allowed - w.writers[fid].is_some() as usize));
        }
    }
    None
}

/// Closes descriptors to test files that nobody owns any more (only called when no map is live).
fn close_stale_fds(w: &World) -> u64 {
    use std::os::unix::io::AsRawFd;
    let own: Vec<i32> = w.writers.iter().flatten().map(|f| f.as_raw_fd()).collect();
    let mut n = 0;
    for (fd, _) in test_file_fds(w) {
        if !own.contains(&fd) {
            unsafe { libc::close(fd) };
            n += 1;
        }
    }
    n
}

//-----------------------------------------------------------------------------
// Executing one history with the oracle after every action.

/// Returns false when the history must stop (the real state can no longer be trusted to follow the reference).
fn step(ctx: &mut Ctx, w: &mut World, live: &mut Vec<Live>, acts: &[Act], k: usize) -> bool {
    let case = || json!({ "acts": &acts[..=k] });
    let page = w.page;
    match acts[k] {
        Act::Map { file, mode } => {
            let fid = file.id();
            let class = file.class(page);
            let sig = || format!("MemoryMap.new[{}]", class);
            let path = w.paths[fid].clone();
            // A fresh inaccessible page first: the kernel places mappings top-down, so the library's mapping
            // lands directly below it and the page AFTER the map is ours (harmless if a drop unmaps too much,
            // and the same in a replay process).
            let pre = unsafe { libc::mmap(std::ptr::null_mut(), page, libc::PROT_NONE, libc::MAP_PRIVATE | libc::MAP_ANONYMOUS, -1, 0) };
            let pre = if pre == libc::MAP_FAILED { None } else { Some(pre as usize) };
            let got = match guard(|| MemoryMap::new(&path, mode.lib())) {
                Ok(r) => r,
                Err(msg) => {
                    if let Some(a) = pre {
                        unsafe { libc::munmap(a as *mut libc::c_void, page) };
                    }
                    ctx.panic_violation(&sig(), &msg, None, case);
                    return false;
                }
            };
            let mut pre = pre;
            if got.is_err() || !file.mappable() {
                if let Some(a) = pre.take() {
                    unsafe { libc::munmap(a as *mut libc::c_void, page) };
                }
            }
            let vmas = w.read_maps();
            let map = match (got, file.mappable()) {
                (Err(_), false) => {
                    ctx.eval();
                    ctx.count(&format!("map_err[{}]", class), 1);
                    // A refused map must not leave anything behind: no page of this file may be mapped outside
                    // the ranges of the live maps.
                    let keep: Vec<(usize, usize)> = live.iter().map(|l| l.range(page)).collect();
                    let mut left = 0usize;
                    for v in vmas.iter().filter(|v| v.fid == fid) {
                        let mut covered = 0usize;
                        for &(klo, khi) in &keep {
                            let (lo, hi) = (v.start.max(klo), v.end.min(khi));
                            if lo < hi {
                                covered += hi - lo;
                            }
                        }
                        left += (v.end - v.start).saturating_sub(covered);
                    }
                    ctx.require(|| format!("MemoryMap.new[{}, refused but mapped]", class), left == 0, case, || json!({"observed": format!("{:#x} bytes of the refused file are mapped after MemoryMap::new returned Err", left), "expected": "nothing of a refused file is mapped", "mappings": show(&vmas)}));
                    if left > 0 {
                        let (regions, bytes) = w.sweep(&vmas, &keep);
                        if regions > 0 {
                            ctx.count("stale_mappings_cleaned", 1);
                            ctx.count("stale_bytes_cleaned", bytes);
                        }
                    }
                    None
                }
                (Err(e), true) => {
                    ctx.require(sig, false, case, || json!({"observed": format!("Err({})", e), "expected": "Ok", "file_bytes": file.size()}));
                    return false;
                }
                (Ok(map), false) => {
                    // Never touch the slice of such a map blindly (for the empty file the pointer may be MAP_FAILED).
                    let (len, empty) = (map.len(), map.is_empty());
                    // An empty file may also be supported: Ok is fine if the (never dereferenced) element slice is
                    // valid, i.e. the pointer is non-null and 8-aligned - read from the Debug rendering, not through
                    // as_ref() - and nothing stays mapped after the drop.
                    let ptr: Option<usize> = format!("{:?}", map).split("ptr: 0x").nth(1).and_then(|t| usize::from_str_radix(t.split(|c: char| !c.is_ascii_hexdigit()).next().unwrap_or(""), 16).ok());
                    let valid_empty = file.size() == Some(0) && len == 0 && empty && matches!(ptr, Some(p) if p != 0 && p % 8 == 0);
                    if valid_empty {
                        ctx.eval();
                        ctx.count("map_ok[empty-file supported]", 1);
                        let _ = guard(move || drop(map));
                        let after = w.read_maps();
                        let left: usize = after.iter().filter(|v| v.fid == fid).map(|v| v.end - v.start).sum();
                        let own_live = live.iter().any(|l| l.f.id() == fid);
                        if !own_live {
                            ctx.require(|| "MemoryMap.drop[empty-file]".to_string(), left == 0, case, || json!({"observed": format!("{:#x} bytes are still mapped to the empty file after its map was dropped", left), "expected": "no part of the file remains mapped", "mappings": show(&after)}));
                        }
                        let keep: Vec<(usize, usize)> = live.iter().map(|l| l.range(page)).collect();
                        let (regions, bytes) = w.sweep(&after, &keep);
                        if regions > 0 {
                            ctx.count("stale_mappings_cleaned", 1);
                            ctx.count("stale_bytes_cleaned", bytes);
                        }
                        return true;
                    }
                    ctx.require(sig, false, case, || json!({"observed": format!("Ok(map) with len() = {}, is_empty() = {}, ptr = {:x?}", len, empty, ptr), "expected": file.why_err(), "file_bytes": file.size()}));
                    let _ = guard(move || drop(map));
                    let after = w.read_maps();
                    let keep: Vec<(usize, usize)> = live.iter().map(|l| l.range(page)).collect();
                    let (regions, bytes) = w.sweep(&after, &keep);
                    if regions > 0 {
                        ctx.count("stale_mappings_cleaned", 1);
                        ctx.count("stale_bytes_cleaned", bytes);
                    }
                    return true;
                }
                (Ok(map), true) => Some(map),
            };
            if let Some(map) = map {
                let want_len = file.elements();
                let mut problems: Vec<String> = Vec::new();
                let mut usable = true;
                let mut range_ok = true;
                if map.len() != want_len {
                    problems.push(format!("len() = {}, the file has {} elements", map.len(), want_len));
                    usable = false;
                    range_ok = false;
                }
                if map.is_empty() != (map.len() == 0) {
                    problems.push(format!("is_empty() = {} with len() = {}", map.is_empty(), map.len()));
                }
                if map.mode() != mode.lib() {
                    problems.push(format!("mode() = {:?}, mapped as {:?}", map.mode(), mode));
                }
                if map.filename() != path.as_path() {
                    problems.push(format!("filename() = {:?}, mapped {:?}", map.filename(), path));
                }
                let mut base = 0usize;
                if map.len() == 0 {
                    usable = false; // the slice of a zero-length map is never touched
                } else {
                    let s: &[u64] = map.as_ref();
                    base = s.as_ptr() as usize;
                    let (lo, hi) = (base, base + round_up(map.len() * 8, page));
                    if base % 8 != 0 {
                        problems.push(format!("the slice pointer {:#x} is not 8-aligned", base));
                        usable = false;
                        range_ok = false;
                    }
                    let c = covered(&vmas, fid, lo, hi);
                    if c != hi - lo {
                        problems.push(format!("only {:#x} of the {:#x} bytes of the slice range at {:#x} are mapped to the file", c, hi - lo, lo));
                        usable = false;
                        range_ok = false;
                    }
                    let mut accessible = true;
                    for v in vmas.iter().filter(|v| v.fid == fid && v.start < hi && v.end > lo) {
                        let p = v.perms.as_bytes();
                        // The property demands a valid (readable; for mutable maps writable) slice. Whether the
                        // mapping is shared is not stated: it is decided by the content checks after writes.
                        let want = if mode == Mode::Mutable { "rw-?" } else { "r--?" };
                        if p.len() < 4 || p[0] != b'r' || (mode == Mode::Mutable && p[1] != b'w') {
                            problems.push(format!("mapping {:x}-{:x} has permissions {}, expected {}", v.start, v.end, v.perms, want));
                            accessible = false;
                            break;
                        }
                    }
                    if usable && accessible {
                        match guard(|| first_mismatch(map.as_ref(), &w.content[fid])) {
                            Ok(None) => {}
                            Ok(Some(msg)) => {
                                problems.push(format!("as_ref(): {}", msg));
                                usable = false;
                            }
                            Err(msg) => {
                                ctx.panic_violation(&sig(), &msg, None, case);
                                usable = false;
                            }
                        }
                    }
                    usable = usable && accessible;
                }
                if let Some(msg) = live_problem(w, &vmas, live) {
                    problems.push(format!("an earlier map was damaged: {}", msg));
                    usable = false;
                }
                ctx.evals_add(6);
                ctx.require(sig, problems.is_empty(), case, || json!({"observed": problems, "mode": mode, "file_bytes": file.size(), "mappings": show(&vmas)}));
                if !usable {
                    if range_ok {
                        let _ = guard(move || drop(map));
                    } else {
                        // Its Drop would unmap a range that is not (all) its own: leak it and release
                        // what it really mapped by hand.
                        std::mem::forget(map);
                        w.forgotten += 1;
                        ctx.count("untrustworthy_maps_leaked", 1);
                        let keep: Vec<(usize, usize)> = live.iter().map(|l| l.range(page)).collect();
                        w.sweep(&vmas, &keep);
                    }
                    return false;
                }
                ctx.count(&format!("map_ok[{}]", class), 1);
                if live.iter().any(|l| l.f == file) {
                    ctx.count("second_live_map_of_the_same_file", 1);
                }
                let (glo, ghi) = (base, base + round_up(want_len * 8, page));
                let guard_before = if want_len > 0 && glo >= page { place_guard(glo - page, page) } else { None };
                let guard_after = match pre.take() {
                    Some(a) if want_len > 0 && a == ghi => Some(a),
                    Some(a) => {
                        unsafe { libc::munmap(a as *mut libc::c_void, page) };
                        if want_len > 0 { place_guard(ghi, page) } else { None }
                    }
                    None => if want_len > 0 { place_guard(ghi, page) } else { None },
                };
                if guard_after.is_some() {
                    ctx.count("maps_with_a_guard_page_after", 1);
                }
                if guard_before.is_some() || guard_after.is_some() {
                    ctx.count("maps_with_guard_pages", 1);
                }
                live.push(Live { map, f: file, mode, len: want_len, base, wrote: false, guard_before, guard_after });
                ctx.count_max("max_live_maps", live.len() as u64);
            }
            if live.is_empty() && !vmas.is_empty() {
                ctx.require(sig, false, case, || json!({"observed": "no map is live but test files are mapped", "mappings": show(&vmas)}));
                return false;
            }
            if let Some(msg) = fd_problem(w, live) {
                ctx.require(|| "MemoryMap.new[descriptors]".to_string(), false, case, || json!({"observed": msg}));
                return false;
            }
            true
        }
        Act::Drop(h) => {
            let l = live.remove(h);
            let (lo, hi) = l.range(page);
            let (file, mode, wrote) = (l.f, l.mode, l.wrote);
            let fid = file.id();
            let class = file.class(page);
            let sig = || format!("MemoryMap.drop[{}]", class);
            let map = l.map;
            let (gb, ga) = (l.guard_before, l.guard_after);
            if let Err(msg) = guard(move || drop(map)) {
                ctx.panic_violation(&sig(), &msg, None, case);
                return false;
            }
            if let Some(msg) = check_and_remove_guards(gb, ga, page) {
                ctx.require(sig, false, case, || json!({"observed": msg, "expected": "the drop unmaps exactly the map", "file_bytes": file.size(), "mode": mode}));
                return false;
            }
            let vmas = w.read_maps();
            ctx.count(&format!("drop[{}]", class), 1);
            let stale = covered(&vmas, fid, lo, hi);
            let mut clean = true;
            if !ctx.require(sig, stale == 0, case, || json!({"observed": format!("{:#x} of the {:#x} bytes of the dropped range at {:#x} are still mapped to the file", stale, hi - lo, lo), "expected": "no page of the dropped range remains mapped", "file_bytes": file.size(), "mode": mode, "mappings": show(&vmas)})) {
                clean = false;
            }
            if let Some(msg) = live_problem(w, &vmas, live) {
                ctx.require(sig, false, case, || json!({"observed": format!("the drop damaged another map: {}", msg), "mappings": show(&vmas)}));
                return false;
            }
            if clean && live.is_empty() && !vmas.is_empty() {
                ctx.require(sig, false, case, || json!({"observed": "no map is live but test files are mapped", "mappings": show(&vmas)}));
                clean = false;
            }
            if !clean {
                // Remove what the library left behind so that the rest of the history (and every later
                // history) is judged on a clean address space.
                let keep: Vec<(usize, usize)> = live.iter().map(|l| l.range(page)).collect();
                let (regions, bytes) = w.sweep(&vmas, &keep);
                if regions > 0 {
                    ctx.count("stale_mappings_cleaned", 1);
                    ctx.count("stale_bytes_cleaned", bytes);
                }
            }
            if let Some(msg) = fd_problem(w, live) {
                ctx.require(|| "MemoryMap.drop[descriptors]".to_string(), false, case, || json!({"observed": msg, "expected": "the dropped map keeps nothing of the file open"}));
                return false;
            }
            if mode == Mode::Mutable && wrote {
                // "changes made through a mutable map are in the file afterwards"
                let bytes = std::fs::read(&w.paths[fid]).expect("cannot read a test file");
                let want: Vec<u8> = w.content[fid].iter().flat_map(|x| x.to_le_bytes()).collect();
                ctx.count("file_checked_after_dropping_a_written_map", 1);
                let at = bytes.iter().zip(want.iter()).position(|(a, b)| a != b);
                if !ctx.require(|| "MemoryMap.write[file-after-drop]".to_string(), bytes == want, case, || json!({"observed": format!("file has {} bytes, first difference from the written content at byte {:?}", bytes.len(), at), "expected_bytes": want.len(), "file_bytes": file.size()})) {
                    return false;
                }
            }
            true
        }
        Act::Write { h, pos, value } => {
            let file = live[h].f;
            let fid = file.id();
            let idx = pos.index(live[h].len);
            let r = guard(|| unsafe {
                live[h].map.as_mut_slice()[idx] = value;
            });
            if let Err(msg) = r {
                ctx.panic_violation("MemoryMap.write[own-map]", &msg, None, case);
                return false;
            }
            w.content[fid][idx] = value;
            w.dirty.push((fid, idx));
            live[h].wrote = true;
            ctx.count("writes", 1);
            let vmas = w.read_maps();
            if let Some(msg) = live_problem(w, &vmas, live) {
                ctx.require(|| "MemoryMap.write[own-map]".to_string(), false, case, || json!({"observed": msg, "mappings": show(&vmas)}));
                return false;
            }
            for j in 0..live.len() {
                if live[j].f != file {
                    continue;
                }
                let which = if j == h { "own-map" } else { "other-map" };
                if j != h {
                    ctx.count("write_checked_through_another_live_map", 1);
                }
                let sig = || format!("MemoryMap.write[{}]", which);
                match guard(|| first_mismatch(live[j].map.as_ref(), &w.content[fid])) {
                    Ok(None) => ctx.eval(),
                    Ok(Some(msg)) => {
                        ctx.require(sig, false, case, || json!({"observed": format!("after the write, live map #{} ({:?}): {}", j, live[j].mode, msg), "written_index": idx, "file_bytes": file.size()}));
                        return false;
                    }
                    Err(msg) => {
                        ctx.panic_violation(&sig(), &msg, None, case);
                        return false;
                    }
                }
            }
            true
        }
        Act::Read(h) => {
            let vmas = w.read_maps();
            let sig = || "MemoryMap.as_ref".to_string();
            if let Some(msg) = live_problem(w, &vmas, live) {
                ctx.require(sig, false, case, || json!({"observed": msg, "mappings": show(&vmas)}));
                return false;
            }
            let l = &live[h];
            let fid = l.f.id();
            ctx.count("read_compares", 1);
            let out = guard(|| {
                let s: &[u64] = l.map.as_ref();
                if l.map.len() != l.len || l.map.is_empty() || l.map.mode() != l.mode.lib() || l.map.filename() != w.paths[fid].as_path() {
                    return Some(format!("len()/is_empty()/mode()/filename() changed: {} {} {:?} {:?}", l.map.len(), l.map.is_empty(), l.map.mode(), l.map.filename()));
                }
                if s.as_ptr() as usize != l.base {
                    return Some(format!("the slice moved from {:#x} to {:#x}", l.base, s.as_ptr() as usize));
                }
                first_mismatch(s, &w.content[fid])
            });
            match out {
                Ok(None) => {
                    ctx.eval();
                    true
                }
                Ok(Some(msg)) => {
                    ctx.require(sig, false, case, || json!({"observed": msg, "file_bytes": l.f.size(), "mode": l.mode}));
                    false
                }
                Err(msg) => {
                    ctx.panic_violation(&sig(), &msg, None, case);
                    false
                }
            }
        }
    }
}

fn run_history(ctx: &mut Ctx, w: &mut World, acts: &[Act]) {
    let mut live: Vec<Live> = Vec::new();
    for k in 0..acts.len() {
        ctx.transitions += 1;
        if !step(ctx, w, &mut live, acts, k) {
            ctx.count("histories_cut_short_by_a_violation", 1);
            break;
        }
    }
    // Teardown (not part of the checked history): drop every handle, remove whatever the library left
    // mapped, restore the files.
    for l in live.drain(..) {
        let map = l.map;
        let (gb, ga) = (l.guard_before, l.guard_after);
        let _ = guard(move || drop(map));
        let _ = check_and_remove_guards(gb, ga, w.page);
    }
    let vmas = w.read_maps();
    if !vmas.is_empty() {
        let (_, bytes) = w.sweep(&vmas, &[]);
        ctx.count("stale_mappings_cleaned", 1);
        ctx.count("stale_bytes_cleaned", bytes);
        assert!(w.read_maps().is_empty(), "harness: could not clean the address space");
    }
    let closed = close_stale_fds(w);
    if closed > 0 {
        ctx.count("stale_descriptors_closed", closed);
    }
    w.restore();
}

//-----------------------------------------------------------------------------

#[allow(clippy::too_many_arguments)]
fn enumerate(ctx: &mut Ctx, w: &mut World, files: &[F], values: &[u64], depth: usize, state: &mut Vec<(F, Mode)>, hist: &mut Vec<Act>, leaf: &mut u64) {
    if w.forgotten >= MAX_FORGOTTEN {
        return; // only reachable after that many violations (see MAX_FORGOTTEN)
    }
    if hist.len() == depth {
        let index = *leaf;
        *leaf += 1;
        if ctx.mine_index(index) {
            ctx.announce(|| json!({ "acts": &hist[..] }));
            ctx.states += 1;
            if ctx.states % 1024 == 1 {
                ctx.sample_tagged(&format!("depth-{}", depth), || json!({ "acts": &hist[..] }));
            }
            run_history(ctx, w, hist);
        }
        return;
    }
    for act in actions(state, files, values) {
        let saved = state.clone();
        model_step(state, &act);
        hist.push(act);
        enumerate(ctx, w, files, values, depth, state, hist, leaf);
        hist.pop();
        *state = saved;
    }
}

//-----------------------------------------------------------------------------
// A mapping the OS refuses although the file exists and has a good size.

/// A memfd sealed against writes (reached through /proc/self/fd): the kernel refuses a shared writable
/// mapping of it (EPERM) but accepts weaker ones. The statement leaves two outcomes: an error, or a map
/// that keeps all its promises (valid slice equal to the content; for a mutable map, changes reach the file).
fn sealed_case(ctx: &mut Ctx, mode: Mode, words: usize) {
    let case = || json!({"SealedMemfd": {"mode": mode, "words": words}});
    let sig = |what: &str| format!("MemoryMap.new[write-sealed memfd, {:?}]{}", mode, what);
    let name = std::ffi::CString::new("verif-c18-sealed").unwrap();
    let fd = unsafe { libc::memfd_create(name.as_ptr(), libc::MFD_ALLOW_SEALING | libc::MFD_CLOEXEC) };
    if fd < 0 {
        ctx.count("sealed_memfd_unavailable", 1);
        return;
    }
    let file = unsafe { <File as std::os::unix::io::FromRawFd>::from_raw_fd(fd) };
    let data: Vec<u64> = (0..words).map(|i| pattern(99, i)).collect();
    let bytes: Vec<u8> = data.iter().flat_map(|w| w.to_le_bytes()).collect();
    if file.write_all_at(&bytes, 0).is_err() || unsafe { libc::fcntl(fd, libc::F_ADD_SEALS, libc::F_SEAL_WRITE) } != 0 {
        ctx.count("sealed_memfd_unavailable", 1);
        return;
    }
    let path = PathBuf::from(format!("/proc/self/fd/{}", fd));
    ctx.states += 1;
    match guard(|| MemoryMap::new(&path, mode.lib())) {
        Err(msg) => ctx.panic_violation(&sig(""), &msg, Some("Err or a working map".to_string()), case),
        Ok(Err(_)) => {
            ctx.eval();
            ctx.count("map_err[refused by the OS: write-sealed memfd]", 1);
        }
        Ok(Ok(mut map)) => {
            ctx.count("map_ok[write-sealed memfd]", 1);
            let same = guard(|| first_mismatch(map.as_ref(), &data));
            let ok = matches!(same, Ok(None));
            ctx.require(|| sig("[content]"), ok, case, || json!({"observed": format!("{:?}", same), "expected": "the element slice equals the file's content"}));
            if ok && mode == Mode::Mutable && map.mode() == MappingMode::Mutable {
                let idx = words / 2;
                let wrote = guard(|| unsafe { map.as_mut_slice()[idx] = WRITE_VALUE });
                let _ = guard(move || drop(map));
                let mut buf = [0u8; 8];
                let read = file.read_exact_at(&mut buf, 8 * idx as u64);
                let got = u64::from_le_bytes(buf);
                ctx.require(
                    || sig("[write reaches the file]"),
                    wrote.is_ok() && read.is_ok() && got == WRITE_VALUE,
                    case,
                    || json!({"observed": format!("element {} of the file is {:#x} after writing {:#x} through the mutable map and dropping it (write: {:?})", idx, got, WRITE_VALUE, wrote), "expected": "changes made through a mutable map are in the file afterwards (or MemoryMap::new fails)"}),
                );
            } else {
                let _ = guard(move || drop(map));
            }
        }
    }
}

fn sealed_cases(ctx: &mut Ctx) {
    for &mode in &[Mode::ReadOnly, Mode::Mutable] {
        for &words in &[1usize, 511, 512, 513, 1024] {
            sealed_case(ctx, mode, words);
        }
    }
}

fn explore(ctx: &mut Ctx) {
    sealed_cases(ctx);
    let mut w = World::new(ctx);
    ctx.note("page_size", w.page);
    let mut leaf = 0u64;
    let one = vec![WRITE_VALUE];
    let two = vec![WRITE_VALUE, ctx.seed_pattern()];
    // (file set, write values, depth): every depth from 1 up, so that the first case reported for a
    // signature is a shortest one.
    let mut passes: Vec<(&[F], &[u64], usize)> = Vec::new();
    if ctx.tier.is_thorough() {
        for depth in 1..=4 {
            passes.push((&ALL_FILES[..], &two[..], depth));
        }
        passes.push((&REDUCED_FILES[..], &one[..], 5));
    } else {
        for depth in 1..=3 {
            passes.push((&ALL_FILES[..], &two[..], depth));
        }
        passes.push((&REDUCED_FILES[..], &one[..], 4));
    }
    for (files, values, depth) in passes {
        let before = ctx.states;
        enumerate(ctx, &mut w, files, values, depth, &mut Vec::new(), &mut Vec::new(), &mut leaf);
        ctx.count(&format!("histories_depth_{}_over_{}_files", depth, files.len()), ctx.states - before);
    }
    ctx.nontrivial_by_construction(ctx.states);
    if w.forgotten >= MAX_FORGOTTEN {
        ctx.count("exploration_stopped_early_after_leaking_untrustworthy_maps", 1);
    }
    w.final_check();
}

fn replay(ctx: &mut Ctx, v: &Value) {
    if let Some(c) = v.get("SealedMemfd") {
        let mode: Mode = serde_json::from_value(c["mode"].clone()).expect("replay: not a C18 sealed-memfd case");
        let words = c["words"].as_u64().expect("replay: not a C18 sealed-memfd case") as usize;
        assert!((1..=(1 << 20)).contains(&words), "replay: sealed-memfd size out of range");
        sealed_case(ctx, mode, words);
        return;
    }
    let c: Case = serde_json::from_value(v.clone()).expect("replay: not a C18 case");
    // Validate the handle indices against the reference state before touching the library.
    let mut state: Vec<(F, Mode)> = Vec::new();
    for act in &c.acts {
        match *act {
            Act::Drop(h) | Act::Read(h) => assert!(h < state.len(), "replay: handle index out of range"),
            Act::Write { h, .. } => assert!(h < state.len() && state[h].1 == Mode::Mutable, "replay: write through a handle that is not a live mutable map"),
            Act::Map { .. } => assert!(state.len() < MAX_LIVE, "replay: more than {} live maps", MAX_LIVE),
        }
        model_step(&mut state, act);
    }
    let mut w = World::new(ctx);
    ctx.states += 1;
    run_history(ctx, &mut w, &c.acts);
    w.final_check();
}

fn main() {
    vcore::run_driver("C18", explore, replay, hook_hits);
}
