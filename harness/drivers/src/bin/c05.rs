//! C05 — raw and integer vectors behave as plain sequences under any operation history.
//! E-hist: breadth-first search over operation sequences on the real vectors; every transition calls
//! the real method; states are deduplicated on the real object's complete observable representation.

use drivers::rawmodel::*;
use drivers::*;
use serde::{Deserialize, Serialize};
use simple_sds::int_vector::IntVector;
use simple_sds::ops::{Access, Pack, Pop, Push, Resize, Vector};
use simple_sds::raw_vector::{AccessRaw, PopRaw, PushRaw, RawVector};
use std::collections::HashSet;
use std::iter::FromIterator;

//-----------------------------------------------------------------------------
// RawVector

#[derive(Serialize, Deserialize, Clone, Debug)]
enum Case {
    Raw { init: RInit, acts: Vec<RAct> },
    Int { init: IInit, acts: Vec<IAct> },
}

fn r_bfs(ctx: &mut Ctx, init: &RInit, depth: usize, values: &[u64], thorough: bool) {
    let (v0, r0) = r_init(init);
    let mut seen: HashSet<(usize, Vec<u64>)> = HashSet::new();
    seen.insert((v0.len(), AsRef::<[u64]>::as_ref(&v0).to_vec()));
    if let Some(msg) = r_observe(&v0, &r0) {
        ctx.violation("RawVector.init/wrong", json!({"Raw": {"init": init, "acts": []}}), json!({"observed": msg}));
        return;
    }
    ctx.states += 1;
    let mut frontier: Vec<(RawVector, Vec<bool>, Vec<RAct>)> = vec![(v0, r0, vec![])];
    for d in 0..depth {
        let mut next = Vec::new();
        for (v, r, hist) in &frontier {
            for act in r_actions(r.len(), values, thorough) {
                let mut v2 = v.clone();
                let mut r2 = r.clone();
                let case = || {
                    let mut acts = hist.clone();
                    acts.push(act.clone());
                    json!({"Raw": {"init": init, "acts": acts}})
                };
                ctx.announce(case);
                ctx.transitions += 1;
                let out = guard(|| {
                    let ret = r_apply(&mut v2, &mut r2, &act);
                    ret.or_else(|| r_observe(&v2, &r2))
                });
                let opname = || format!("RawVector.{}", act_name_r(&act));
                match out {
                    Ok(None) => {}
                    Ok(Some(msg)) => {
                        ctx.require(opname, false, case, || json!({"observed": msg}));
                        continue;
                    }
                    Err(msg) => {
                        ctx.panic_violation(&opname(), &msg, None, case);
                        continue;
                    }
                }
                ctx.eval();
                let key = (v2.len(), AsRef::<[u64]>::as_ref(&v2).to_vec());
                if seen.insert(key) {
                    ctx.states += 1;
                    if ctx.states % 4096 == 1 {
                        ctx.sample_tagged("raw-history", case);
                    }
                    if d + 1 < depth {
                        let mut h = hist.clone();
                        h.push(act.clone());
                        next.push((v2, r2, h));
                    }
                }
            }
        }
        frontier = next;
    }
    ctx.nontrivial_by_construction(seen.len() as u64);
}

fn act_name_r(a: &RAct) -> &'static str {
    match a {
        RAct::PushBit(_) => "push_bit",
        RAct::PushInt(..) => "push_int",
        RAct::PopBit => "pop_bit",
        RAct::PopInt(_) => "pop_int",
        RAct::SetBit(..) => "set_bit",
        RAct::SetInt(..) => "set_int",
        RAct::Resize(..) => "resize",
        RAct::Clear => "clear",
        RAct::Reserve(_) => "reserve",
        RAct::Complement => "complement",
    }
}

fn r_replay(ctx: &mut Ctx, init: &RInit, acts: &[RAct]) {
    let (mut v, mut r) = r_init(init);
    if let Some(msg) = r_observe(&v, &r) {
        ctx.violation("RawVector.init/wrong", json!({"Raw": {"init": init, "acts": []}}), json!({"observed": msg}));
        return;
    }
    for (k, act) in acts.iter().enumerate() {
        let case = || json!({"Raw": {"init": init, "acts": &acts[..=k]}});
        ctx.transitions += 1;
        let out = guard(|| {
            let ret = r_apply(&mut v, &mut r, act);
            ret.or_else(|| r_observe(&v, &r))
        });
        let opname = || format!("RawVector.{}", act_name_r(act));
        match out {
            Ok(None) => {}
            Ok(Some(msg)) => {
                ctx.require(opname, false, case, || json!({"observed": msg}));
                return;
            }
            Err(msg) => {
                ctx.panic_violation(&opname(), &msg, None, case);
                return;
            }
        }
    }
}

//-----------------------------------------------------------------------------
// IntVector

#[derive(Serialize, Deserialize, Clone, Debug, Hash, PartialEq, Eq)]
enum IInit {
    New(usize),
    WithCapacity(usize, usize),
    WithLen(usize, usize, u64),
    Default,
    FromVecU8(Vec<u8>),
    FromVecU16(Vec<u16>),
    FromVecU32(Vec<u32>),
    FromVecU64(Vec<u64>),
    FromVecUsize(Vec<usize>),
    FromIterU8(Vec<u8>),
    FromIterU16(Vec<u16>),
    FromIterU32(Vec<u32>),
    FromIterU64(Vec<u64>),
    FromIterUsize(Vec<usize>),
}

#[derive(Serialize, Deserialize, Clone, Debug, Hash, PartialEq, Eq)]
enum IAct {
    Push(u64),
    Pop,
    Set(usize, u64),
    Resize(usize, u64),
    Clear,
    Reserve(usize),
    Pack,
    ExtendU8(Vec<u8>),
    ExtendU16(Vec<u16>),
    ExtendU32(Vec<u32>),
    ExtendU64(Vec<u64>),
    ExtendUsize(Vec<usize>),
}

fn mask(w: usize) -> u64 {
    if w >= 64 { !0 } else { (1u64 << w) - 1 }
}

fn i_init(i: &IInit) -> (IntVector, usize, Vec<u64>) {
    match i {
        IInit::New(w) => (IntVector::new(*w).unwrap(), *w, vec![]),
        IInit::WithCapacity(c, w) => (IntVector::with_capacity(*c, *w).unwrap(), *w, vec![]),
        IInit::WithLen(n, w, v) => (IntVector::with_len(*n, *w, *v).unwrap(), *w, vec![*v & mask(*w); *n]),
        IInit::Default => (IntVector::default(), 64, vec![]),
        IInit::FromVecU8(x) => (IntVector::from(x.clone()), 8, x.iter().map(|&v| v as u64).collect()),
        IInit::FromVecU16(x) => (IntVector::from(x.clone()), 16, x.iter().map(|&v| v as u64).collect()),
        IInit::FromVecU32(x) => (IntVector::from(x.clone()), 32, x.iter().map(|&v| v as u64).collect()),
        IInit::FromVecU64(x) => (IntVector::from(x.clone()), 64, x.clone()),
        IInit::FromVecUsize(x) => (IntVector::from(x.clone()), 64, x.iter().map(|&v| v as u64).collect()),
        IInit::FromIterU8(x) => (IntVector::from_iter(x.iter().copied()), 8, x.iter().map(|&v| v as u64).collect()),
        IInit::FromIterU16(x) => (IntVector::from_iter(x.iter().copied()), 16, x.iter().map(|&v| v as u64).collect()),
        IInit::FromIterU32(x) => (IntVector::from_iter(x.iter().copied()), 32, x.iter().map(|&v| v as u64).collect()),
        IInit::FromIterU64(x) => (IntVector::from_iter(x.iter().copied()), 64, x.clone()),
        IInit::FromIterUsize(x) => (IntVector::from_iter(x.iter().copied()), 64, x.iter().map(|&v| v as u64).collect()),
    }
}

fn i_actions(len: usize, w: usize, pattern: u64, thorough: bool) -> Vec<IAct> {
    let max = mask(w);
    let mut vals = vec![0u64, max, max.wrapping_add(1) | 1, pattern, !0u64];
    vals.sort_unstable();
    vals.dedup();
    let mut a: Vec<IAct> = vals.iter().map(|&v| IAct::Push(v)).collect();
    a.push(IAct::Pop);
    a.push(IAct::Clear);
    a.push(IAct::Reserve(5));
    a.push(IAct::Pack);
    if len > 0 {
        let mut idx = vec![0, len - 1, len / 2];
        idx.sort_unstable();
        idx.dedup();
        for i in idx {
            a.push(IAct::Set(i, 0));
            a.push(IAct::Set(i, !0));
            if thorough {
                a.push(IAct::Set(i, pattern));
                a.push(IAct::Set(i, 1));
            }
        }
    }
    let mut sizes = vec![0usize, len + 1, len + 3];
    if len > 0 {
        sizes.push(len - 1);
    }
    if len > 2 {
        sizes.push(len - 2);
    }
    sizes.sort_unstable();
    sizes.dedup();
    for n in sizes {
        if n != len {
            a.push(IAct::Resize(n, !0));
            a.push(IAct::Resize(n, 0));
            if w < 64 {
                a.push(IAct::Resize(n, 1u64 << w)); // non-zero, but zero within the item width
            }
            if thorough {
                a.push(IAct::Resize(n, pattern));
            }
        }
    }
    a.push(IAct::ExtendU8(vec![0xFF, 1]));
    a.push(IAct::ExtendU64(vec![!0, pattern]));
    if thorough {
        a.push(IAct::ExtendU16(vec![0xFFFF, 2]));
        a.push(IAct::ExtendU32(vec![0xFFFF_FFFF, 3]));
        a.push(IAct::ExtendUsize(vec![usize::MAX, 4]));
    }
    a
}

fn i_apply(v: &mut IntVector, w: &mut usize, r: &mut Vec<u64>, act: &IAct) -> Option<String> {
    let m = mask(*w);
    match act {
        IAct::Push(x) => {
            v.push(*x);
            r.push(*x & m);
            None
        }
        IAct::Pop => {
            let got = v.pop();
            let want = r.pop();
            (got != want).then(|| format!("pop() returned {:?}, expected {:?}", got, want))
        }
        IAct::Set(i, x) => {
            v.set(*i, *x);
            r[*i] = *x & m;
            None
        }
        IAct::Resize(n, x) => {
            v.resize(*n, *x);
            r.resize(*n, *x & m);
            None
        }
        IAct::Clear => {
            v.clear();
            r.clear();
            None
        }
        IAct::Reserve(n) => {
            v.reserve(*n);
            None
        }
        IAct::Pack => {
            v.pack();
            if !r.is_empty() {
                let mx = *r.iter().max().unwrap();
                *w = if mx == 0 { 1 } else { 64 - mx.leading_zeros() as usize };
            }
            None
        }
        IAct::ExtendU8(x) => {
            v.extend(x.iter().copied());
            r.extend(x.iter().map(|&e| e as u64 & m));
            None
        }
        IAct::ExtendU16(x) => {
            v.extend(x.iter().copied());
            r.extend(x.iter().map(|&e| e as u64 & m));
            None
        }
        IAct::ExtendU32(x) => {
            v.extend(x.iter().copied());
            r.extend(x.iter().map(|&e| e as u64 & m));
            None
        }
        IAct::ExtendU64(x) => {
            v.extend(x.iter().copied());
            r.extend(x.iter().map(|&e| e & m));
            None
        }
        IAct::ExtendUsize(x) => {
            v.extend(x.iter().copied());
            r.extend(x.iter().map(|&e| e as u64 & m));
            None
        }
    }
}

fn i_observe(v: &IntVector, w: usize, r: &[u64]) -> Option<String> {
    if v.len() != r.len() || v.is_empty() != r.is_empty() {
        return Some(format!("len() = {}, expected {}", v.len(), r.len()));
    }
    if v.width() != w {
        return Some(format!("width() = {}, expected {}", v.width(), w));
    }
    for (i, &x) in r.iter().enumerate() {
        if v.get(i) != x {
            return Some(format!("get({}) = {:#x}, expected {:#x}", i, v.get(i), x));
        }
    }
    if v.get_or(r.len(), 77) != 77 {
        return Some("get_or(len, 77) != 77".to_string());
    }
    let it: Vec<u64> = v.iter().collect();
    if it != r {
        return Some(format!("iter() yields {:x?}, expected {:x?}", it, r));
    }
    if v.iter().len() != r.len() {
        return Some("iter().len() is wrong".to_string());
    }
    let rev: Vec<u64> = v.iter().rev().collect();
    if rev.iter().rev().copied().collect::<Vec<u64>>() != r {
        return Some("iter().rev() is wrong".to_string());
    }
    let owned: Vec<u64> = v.clone().into_iter().collect();
    if owned != r {
        return Some(format!("into_iter() yields {:x?}, expected {:x?}", owned, r));
    }
    let mut fresh = IntVector::new(w).unwrap();
    for &x in r {
        fresh.push(x);
    }
    if *v != fresh {
        return Some(format!("vector != freshly built vector with the same width and content (words {:x?} vs {:x?})", AsRef::<[u64]>::as_ref(AsRef::<RawVector>::as_ref(v)), AsRef::<[u64]>::as_ref(AsRef::<RawVector>::as_ref(&fresh))));
    }
    if to_bytes(v) != to_bytes(&fresh) {
        return Some("serialized bytes differ from those of a freshly built vector".to_string());
    }
    let raw: &RawVector = v.as_ref();
    let ones: usize = r.iter().map(|x| x.count_ones() as usize).sum();
    if raw.count_ones() != ones {
        return Some(format!("count_ones() of the data = {}, expected {}", raw.count_ones(), ones));
    }
    if raw.len() != r.len() * w {
        return Some(format!("data length {} != len * width = {}", raw.len(), r.len() * w));
    }
    if v.capacity() < v.len() {
        return Some(format!("capacity() = {} < len() = {}", v.capacity(), v.len()));
    }
    None
}

fn act_name_i(a: &IAct) -> &'static str {
    match a {
        IAct::Push(_) => "push",
        IAct::Pop => "pop",
        IAct::Set(..) => "set",
        IAct::Resize(..) => "resize",
        IAct::Clear => "clear",
        IAct::Reserve(_) => "reserve",
        IAct::Pack => "pack",
        _ => "extend",
    }
}

fn i_bfs(ctx: &mut Ctx, init: &IInit, depth: usize, pattern: u64, thorough: bool) {
    let (v0, w0, r0) = i_init(init);
    let key_of = |v: &IntVector| (v.len(), v.width(), AsRef::<[u64]>::as_ref(AsRef::<RawVector>::as_ref(v)).to_vec());
    let mut seen: HashSet<(usize, usize, Vec<u64>)> = HashSet::new();
    seen.insert(key_of(&v0));
    if let Some(msg) = i_observe(&v0, w0, &r0) {
        ctx.violation("IntVector.init/wrong", json!({"Int": {"init": init, "acts": []}}), json!({"observed": msg}));
        return;
    }
    ctx.states += 1;
    ctx.note("int_widths", w0);
    let mut frontier: Vec<(IntVector, usize, Vec<u64>, Vec<IAct>)> = vec![(v0, w0, r0, vec![])];
    for d in 0..depth {
        let mut next = Vec::new();
        for (v, w, r, hist) in &frontier {
            for act in i_actions(r.len(), *w, pattern, thorough) {
                let mut v2 = v.clone();
                let mut r2 = r.clone();
                let mut w2 = *w;
                let case = || {
                    let mut acts = hist.clone();
                    acts.push(act.clone());
                    json!({"Int": {"init": init, "acts": acts}})
                };
                ctx.announce(case);
                ctx.transitions += 1;
                let out = guard(|| {
                    let ret = i_apply(&mut v2, &mut w2, &mut r2, &act);
                    ret.or_else(|| i_observe(&v2, w2, &r2))
                });
                let opname = || format!("IntVector.{}", act_name_i(&act));
                match out {
                    Ok(None) => {}
                    Ok(Some(msg)) => {
                        ctx.require(opname, false, case, || json!({"observed": msg}));
                        continue;
                    }
                    Err(msg) => {
                        ctx.panic_violation(&opname(), &msg, None, case);
                        continue;
                    }
                }
                ctx.eval();
                if seen.insert(key_of(&v2)) {
                    ctx.states += 1;
                    if ctx.states % 4096 == 2 {
                        ctx.sample_tagged("int-history", case);
                    }
                    if d + 1 < depth {
                        let mut h = hist.clone();
                        h.push(act.clone());
                        next.push((v2, w2, r2, h));
                    }
                }
            }
        }
        frontier = next;
    }
    ctx.nontrivial_by_construction(seen.len() as u64);
}

fn i_replay(ctx: &mut Ctx, init: &IInit, acts: &[IAct]) {
    let (mut v, mut w, mut r) = i_init(init);
    if let Some(msg) = i_observe(&v, w, &r) {
        ctx.violation("IntVector.init/wrong", json!({"Int": {"init": init, "acts": []}}), json!({"observed": msg}));
        return;
    }
    for (k, act) in acts.iter().enumerate() {
        let case = || json!({"Int": {"init": init, "acts": &acts[..=k]}});
        ctx.transitions += 1;
        let out = guard(|| {
            let ret = i_apply(&mut v, &mut w, &mut r, act);
            ret.or_else(|| i_observe(&v, w, &r))
        });
        let opname = || format!("IntVector.{}", act_name_i(act));
        match out {
            Ok(None) => {}
            Ok(Some(msg)) => {
                ctx.require(opname, false, case, || json!({"observed": msg}));
                return;
            }
            Err(msg) => {
                ctx.panic_violation(&opname(), &msg, None, case);
                return;
            }
        }
    }
}

//-----------------------------------------------------------------------------

fn explore(ctx: &mut Ctx) {
    let thorough = ctx.tier.is_thorough();
    let pattern = ctx.seed_pattern();
    // RawVector
    let mut rinits = vec![RInit::New, RInit::WithCapacity(200)];
    for n in [1usize, 63, 64, 65, 128] {
        rinits.push(RInit::WithLen(n, false));
        rinits.push(RInit::WithLen(n, true));
    }
    let full: Vec<u64> = vec![0, !0, 0xA5A5_A5A5_A5A5_A5A5, pattern];
    let reduced: Vec<u64> = vec![!0, 0xA5A5_A5A5_A5A5_A5A5];
    let mut job = 0u64;
    for init in &rinits {
        if ctx.mine_index(job) {
            if thorough {
                r_bfs(ctx, init, 4, &full, true);
                r_bfs(ctx, init, 5, &reduced, false);
                r_bfs(ctx, init, 5, &[!0u64], true);
            } else {
                r_bfs(ctx, init, 4, &reduced, false);
            }
            ctx.count("raw_initial_states", 1);
        }
        job += 1;
    }
    // IntVector
    let widths: Vec<usize> = if thorough { (1..=64).collect() } else { vec![1, 2, 7, 8, 13, 31, 32, 33, 63, 64] };
    for &w in &widths {
        // k such that k*w sits just below / on / above a word boundary
        let below = 63 / w;
        let on = if 64 % w == 0 { 64 / w } else { 128 / w };
        let mut inits = vec![IInit::New(w), IInit::WithCapacity(9, w), IInit::WithLen(below.max(1), w, !0), IInit::WithLen(on, w, pattern), IInit::WithLen(64 / w + 1, w, 0),
            // fill values whose only set bits lie above the item width, or everywhere but the lowest bit
            IInit::WithLen(3, w, if w < 64 { 1u64 << w } else { 1u64 << 63 }), IInit::WithLen(on + 1, w, !1u64)];
        if w == 64 {
            inits.push(IInit::Default);
            inits.push(IInit::FromVecU64(vec![!0, 0, 5]));
            inits.push(IInit::FromIterU64(vec![1, !0]));
            inits.push(IInit::FromVecUsize(vec![usize::MAX, 7]));
            inits.push(IInit::FromIterUsize(vec![3]));
        }
        if w == 8 {
            inits.push(IInit::FromVecU8(vec![255, 0, 1, 2, 3, 4, 5, 6, 7]));
            inits.push(IInit::FromIterU8(vec![9, 255]));
        }
        if w == 16 {
            inits.push(IInit::FromVecU16(vec![65535, 0, 1, 2, 3]));
            inits.push(IInit::FromIterU16(vec![9, 65535]));
        }
        if w == 32 {
            inits.push(IInit::FromVecU32(vec![u32::MAX, 0, 1]));
            inits.push(IInit::FromIterU32(vec![9, u32::MAX, 4]));
        }
        for init in &inits {
            if ctx.mine_index(job) {
                if thorough {
                    i_bfs(ctx, init, 4, pattern, true);
                    i_bfs(ctx, init, 5, pattern, false);
                    if [1usize, 7, 8, 33, 63, 64].contains(&w) {
                        i_bfs(ctx, init, 6, pattern, false);
                    }
                } else {
                    i_bfs(ctx, init, 4, pattern, false);
                }
                ctx.count("int_initial_states", 1);
            }
            job += 1;
        }
    }
}

fn replay(ctx: &mut Ctx, v: &Value) {
    let c: Case = serde_json::from_value(v.clone()).expect("replay: not a C05 case");
    match c {
        Case::Raw { init, acts } => r_replay(ctx, &init, &acts),
        Case::Int { init, acts } => i_replay(ctx, &init, &acts),
    }
}

fn main() {
    vcore::run_driver("C05", explore, replay, hook_hits);
}
