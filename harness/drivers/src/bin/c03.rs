//! C03 — run-length bitvector answers every query exactly and reports maximal runs.
//! E-input: run lists as words over (gap, length) magnitudes from 1 to 2^63, block-shape
//! families (1, 8, 9, many blocks; early-closed blocks; first block without unset bits), and all
//! bit sequences of small length.

use drivers::*;
use serde::{Deserialize, Serialize};
use simple_sds::ops::BitVec;
use simple_sds::rl_vector::{RLBuilder, RLVector};
use vcore::spec;

#[derive(Serialize, Deserialize, Clone, Debug, Hash)]
enum Case {
    Small { len: usize, word: u64 },
    /// Alternating (gap, run length) pairs, then `tail` unset bits.
    Runs { pairs: Vec<(u64, u64)>, tail: u64 },
    /// `head` pairs followed by k times the pair (1, 1), then `tail` unset bits.
    Ladder { head: Vec<(u64, u64)>, k: usize, tail: u64 },
    /// k tiny runs, one big run, k tiny runs (tiny = gap `g`, length `l`).
    Shape { k: usize, g: u64, l: u64, big_gap: u64, big_len: u64, tail: u64 },
}

fn model_of(c: &Case) -> Option<Bits> {
    let from_pairs = |pairs: &mut dyn Iterator<Item = (u64, u64)>, tail: u64| -> Option<Bits> {
        let mut runs = Vec::new();
        let mut at = 0u128;
        for (g, l) in pairs {
            at += g as u128;
            runs.push((at, l as u128));
            at += l as u128;
        }
        let len = at + tail as u128;
        if len > usize::MAX as u128 {
            return None;
        }
        Some(Bits::from_runs(len, &runs))
    };
    match c {
        Case::Small { len, word } => Some(Bits::from_word(*word, *len)),
        Case::Runs { pairs, tail } => from_pairs(&mut pairs.iter().copied(), *tail),
        Case::Ladder { head, k, tail } => from_pairs(&mut head.iter().copied().chain(std::iter::repeat((1u64, 1u64)).take(*k)), *tail),
        Case::Shape { k, g, l, big_gap, big_len, tail } => {
            let tiny = std::iter::repeat((*g, *l)).take(*k);
            let mut all = tiny.clone().chain(std::iter::once((*big_gap, *big_len))).chain(tiny);
            from_pairs(&mut all, *tail)
        }
    }
}

fn family(c: &Case) -> &'static str {
    match c {
        Case::Small { .. } => "small-scope",
        Case::Runs { .. } => "magnitude-words",
        Case::Ladder { .. } => "first-block-without-zeros",
        Case::Shape { .. } => "block-shapes",
    }
}

fn len_class(m: &Bits) -> &'static str {
    if m.len > (1u128 << 63) {
        "len>2^63"
    } else {
        "len<=2^63"
    }
}

fn check_case(ctx: &mut Ctx, c: &Case) {
    let m = match model_of(c) {
        Some(m) => m,
        None => return,
    };
    let case = || serde_json::to_value(c).unwrap();
    ctx.announce(case);
    ctx.sample_tagged(family(c), case);
    let lc = len_class(&m);
    let first_block_full_of_ones = m.runs.first().map(|r| r.0 == 0).unwrap_or(false);

    let rl = match guard(|| rl_from_model(&m)) {
        Ok(Ok(rl)) => rl,
        Ok(Err(e)) => {
            ctx.require(|| format!("RLVector.construct[{}]", lc), false, || json!({"bv": case(), "call": "RLBuilder::try_set per run + set_len + RLVector::from"}), || json!({"observed": format!("builder refused a valid run list: {}", e)}));
            return;
        }
        Err(msg) => {
            let cls = if first_block_full_of_ones && msg.contains("strictly increasing") { "first-run-at-0" } else { lc };
            ctx.panic_violation(&format!("RLVector.construct[{}]", cls), &msg, None, || json!({"bv": case(), "call": "RLBuilder::try_set per run + set_len + RLVector::from"}));
            return;
        }
    };

    // Regime evidence from the serialized form, decoded by the independent codec.
    let bytes = to_bytes(&rl);
    let mut problems = Vec::new();
    let mut pos_marks: Vec<u128> = Vec::new();
    let mut rank_marks: Vec<u128> = Vec::new();
    if let Ok(f) = spec::read_rl(&mut spec::Reader::new(&bytes), &mut problems) {
        ctx.note("blocks_per_vector", match f.blocks { 0 => "0", 1 => "1", 2..=7 => "2-7", 8 => "8", 9 => "9", 10..=63 => "10-63", _ => "64+" });
        ctx.count_max("max_blocks", f.blocks);
        ctx.count_max("max_code_units_per_value", f.max_units_per_value);
        for &(ones, bits) in &f.samples {
            pos_marks.push(bits as u128);
            rank_marks.push(ones as u128);
        }
        if f.blocks >= 2 {
            ctx.count("vectors_with_several_blocks", 1);
        }
        if f.blocks >= 9 {
            ctx.count("vectors_with_9_or_more_blocks", 1);
        }
    }
    if m.len > (1u128 << 63) {
        ctx.count("vectors_longer_than_2^63", 1);
    }
    if !m.runs.is_empty() {
        ctx.nontrivial(c);
    }

    let small = m.len <= 4096;
    let mut q = if small { Queries::exhaustive(&m) } else { Queries::edges(&m, &[], &[], ctx.tier.pick(40, 120), m.len <= 200_000) };
    if !small {
        // add block sample boundaries +-1 in position and rank space
        for &p in &pos_marks {
            for d in [p.wrapping_sub(1), p, p + 1] {
                if d <= m.len {
                    q.positions.push(d as usize);
                }
            }
        }
        for &r in &rank_marks {
            for d in [r.wrapping_sub(1), r, r + 1] {
                if d <= m.ones() + 1 {
                    q.ranks.push(d as usize);
                }
            }
        }
        // zero ranks at block boundaries
        for (&p, &r) in pos_marks.iter().zip(rank_marks.iter()) {
            let z = p - r;
            for d in [z.wrapping_sub(1), z, z + 1] {
                if d <= m.zeros() + 1 {
                    q.zero_ranks.push(d as usize);
                }
            }
        }
        for v in [&mut q.positions, &mut q.ranks, &mut q.zero_ranks] {
            v.sort_unstable();
            v.dedup();
        }
    }
    check_bitvec!(ctx, &rl, &m, "RLVector", &q, case);

    // run_iter: exactly the maximal runs with running offset / rank / rank_zero.
    let got = guard(|| {
        let mut it = rl.run_iter();
        let mut bad: Option<String> = None;
        let mut k = 0usize;
        let mut rank = 0u128;
        if it.offset() != 0 || it.rank() != 0 || it.rank_zero() != 0 {
            bad = Some("fresh run_iter does not start at offset 0 / rank 0".to_string());
        }
        while bad.is_none() {
            match it.next() {
                Some((s, l)) => {
                    if k >= m.runs.len() || (s as u128, l as u128) != m.runs[k] {
                        bad = Some(format!("run {} is ({}, {}), expected {:?}", k, s, l, m.runs.get(k)));
                        break;
                    }
                    rank += l as u128;
                    let end = s as u128 + l as u128;
                    if it.offset() as u128 != end || it.rank() as u128 != rank || it.rank_zero() as u128 != end - rank {
                        bad = Some(format!("after run {}: offset/rank/rank_zero = {}/{}/{}, expected {}/{}/{}", k, it.offset(), it.rank(), it.rank_zero(), end, rank, end - rank));
                    }
                    k += 1;
                }
                None => {
                    if k != m.runs.len() {
                        bad = Some(format!("run_iter ended after {} runs, expected {}", k, m.runs.len()));
                    } else if it.next().is_some() {
                        bad = Some("run_iter yields a run after None".to_string());
                    }
                    break;
                }
            }
        }
        bad
    });
    ctx.expect(|| format!("RLVector.run_iter[{}]", lc), got, &None, || json!({"bv": case(), "call": "run_iter() to the end"}));

    // Other construction routes: equal vector, identical bytes.
    let mut routes: Vec<(&str, Result<RLVector, String>)> = Vec::new();
    if m.len <= 4200 {
        routes.push(("try_set per bit", guard(|| {
            let mut b = RLBuilder::new();
            for p in m.positions() {
                b.try_set(p as usize, 1).unwrap();
            }
            b.set_len(m.len as usize);
            RLVector::from(b)
        })));
        routes.push(("copy_bit_vec(BitVector)", guard(|| RLVector::copy_bit_vec(&bv_from_model(&m)))));
        routes.push(("copy_bit_vec(SparseVector)", guard(|| RLVector::copy_bit_vec(&sparse_from_model(&m).unwrap()))));
        routes.push(("copy_bit_vec(RLVector)", guard(|| RLVector::copy_bit_vec(&rl))));
    }
    if m.runs.len() <= 64 {
        // every run split into two adjacent pieces (try_set merges adjacent runs)
        routes.push(("try_set in two pieces per run", guard(|| {
            let mut b = RLBuilder::new();
            for &(s, l) in &m.runs {
                let a = l / 2;
                b.try_set(s as usize, a as usize).unwrap();
                b.try_set((s + a) as usize, (l - a) as usize).unwrap();
            }
            b.set_len(m.len as usize);
            RLVector::from(b)
        })));
    }
    if m.runs.len() <= 64 {
        // the length raised to the start of every run before the run is set (also on the fresh builder)
        routes.push(("set_len(start) before every run", guard(|| {
            let mut b = RLBuilder::new();
            for &(s, l) in &m.runs {
                b.set_len(s as usize);
                b.try_set(s as usize, l as usize).unwrap();
            }
            b.set_len(m.len as usize);
            RLVector::from(b)
        })));
    }
    for (route, r) in routes {
        match r {
            Ok(v) => {
                // Same length, counts and maximal runs (identical representation is C11's statement).
                let same = guard(|| v.len() == rl.len() && v.count_ones() == rl.count_ones() && v.run_iter().eq(rl.run_iter()));
                ctx.expect(|| format!("RLVector.route({})[runs and counts]", route), same, &true, || json!({"bv": case(), "call": route}));
                let mut q2 = if m.len <= 64 { Queries::exhaustive(&m) } else { Queries::edges(&m, &[], &[], 12, false) };
                q2.full_iters = false;
                let name = format!("RLVector(route {})", route);
                check_bitvec!(ctx, &v, &m, &name, &q2, case);
            }
            Err(msg) => ctx.panic_violation(&format!("RLVector.route({})", route), &msg, None, || json!({"bv": case(), "call": route})),
        }
    }
}

fn explore(ctx: &mut Ctx) {
    vcore::model::self_check().expect("reference model self-check failed");
    let thorough = ctx.tier.is_thorough();

    // Small scope.
    let n = ctx.tier.pick(12, 13);
    for len in 0..=n {
        for word in 0..(1u64 << len) {
            let c = Case::Small { len, word };
            if ctx.mine(&c) {
                check_case(ctx, &c);
            }
        }
    }

    // Magnitude words.
    let full: Vec<u64> = vec![1, 2, 7, 8, 9, 63, 64, 65, 511, 512, 1 << 20, (1u64 << 32) - 1, 1 << 32, 1 << 45, 1 << 59, 1 << 60, (1u64 << 62) - 1, 1 << 62, 1 << 63];
    let eight: Vec<u64> = vec![1, 8, 64, 511, 1 << 20, 1 << 32, 1 << 60, 1 << 63];
    let ten: Vec<u64> = vec![1, 7, 8, 64, 512, 1 << 20, (1u64 << 32) - 1, 1 << 45, 1 << 62, 1 << 63];
    let tails: [u64; 3] = [0, 1, 1 << 61];
    let mut emit = |ctx: &mut Ctx, pairs: Vec<(u64, u64)>| {
        for &tail in &tails {
            let c = Case::Runs { pairs: pairs.clone(), tail };
            if ctx.mine(&c) {
                ctx.count("magnitude_word_cases", 1);
                check_case(ctx, &c);
            }
        }
    };
    let two = if thorough { &full } else { &eight };
    let mut first_gaps: Vec<u64> = vec![0];
    first_gaps.extend(two.iter().copied());
    emit(ctx, vec![]);
    for &g1 in &first_gaps {
        for &l1 in two.iter() {
            emit(ctx, vec![(g1, l1)]);
            for &g2 in two.iter() {
                for &l2 in two.iter() {
                    emit(ctx, vec![(g1, l1), (g2, l2)]);
                }
            }
        }
    }
    if thorough {
        let mut fg: Vec<u64> = vec![0];
        fg.extend(ten.iter().copied());
        for &g1 in &fg {
            for &l1 in &ten {
                for &g2 in &ten {
                    for &l2 in &ten {
                        for &g3 in &ten {
                            for &l3 in &ten {
                                emit(ctx, vec![(g1, l1), (g2, l2), (g3, l3)]);
                            }
                        }
                    }
                }
            }
        }
    }

    // Block shapes: number of blocks 1, 8, 9, many; a big run that closes a block early; a huge
    // first run at position 0 (first block without unset bits).
    let ks: Vec<usize> = if thorough { vec![0, 1, 8, 9, 31, 32, 33, 100, 300, 600] } else { vec![0, 1, 8, 9, 32, 33, 100, 600] };
    let bigs: Vec<u64> = if thorough { vec![1, 1 << 20, 1 << 45, 1 << 60, (1u64 << 62) + 1] } else { vec![1, 1 << 45, 1 << 60] };
    for &k in &ks {
        for &(g, l) in &[(1u64, 1u64), (1, 8), (9, 1), (70, 70), (1 << 20, 3)] {
            for &big_gap in &[0u64, 1, 1 << 33] {
                for &big_len in &bigs {
                    for &tail in &[0u64, 5, 1 << 45] {
                        if big_gap == 0 && k > 0 {
                            continue; // would merge with the previous tiny run: not a run list of maximal runs
                        }
                        let c = Case::Shape { k, g, l, big_gap, big_len, tail };
                        if ctx.mine(&c) {
                            ctx.count("block_shape_cases", 1);
                            check_case(ctx, &c);
                        }
                    }
                }
            }
        }
    }
    // Every fill level of a block in front of the widest runs the encoding allows (a gap of 2^63 takes 22 code
    // units, a length of 2^60 + 1 takes 21): `fill` units are used by tiny runs, then comes the wide run, then
    // two more runs. Does the wide run still fit, is the block closed, is anything overwritten?
    for fill in 0..=66usize {
        for &(wide_gap, wide_len) in &[(1u64 << 63, (1u64 << 60) + 1), (1u64 << 63, 1u64), (2u64, (1u64 << 60) + 1), ((1u64 << 62) + 5, (1u64 << 61) + 3)] {
            let mut pairs: Vec<(u64, u64)> = std::iter::repeat((1u64, 1u64)).take(fill / 2).collect();
            if fill % 2 == 1 {
                if pairs.is_empty() {
                    continue;
                }
                pairs[0] = (1, 9); // three code units instead of two
            }
            pairs.push((wide_gap, wide_len));
            pairs.push((1, 1));
            pairs.push((7, 2));
            let c = Case::Runs { pairs, tail: 3 };
            if ctx.mine(&c) {
                ctx.count("block_fill_x_wide_run_cases", 1);
                check_case(ctx, &c);
            }
        }
    }
    // Lengths at the documented maximum: usize::MAX, MAX-1, MAX-2, ... with k tiny runs first (1, 8, 9, 10+
    // blocks) and either a final run or trailing zeros reaching the end.
    for &k in &[0usize, 1, 200, 256, 257, 288, 320, 600] {
        for &slack in &[0u64, 1, 2, 3, 40] {
            for &ends_with_run in &[true, false] {
                let used = 2 * k as u64;
                let mut pairs: Vec<(u64, u64)> = std::iter::repeat((1u64, 1u64)).take(k).collect();
                let tail = if ends_with_run {
                    let gap = 1u64 << 62;
                    pairs.push((gap, u64::MAX - slack - used - gap));
                    slack
                } else {
                    u64::MAX - slack - used
                };
                let c = Case::Runs { pairs, tail };
                if ctx.mine(&c) {
                    ctx.count("length_at_the_maximum_cases", 1);
                    check_case(ctx, &c);
                }
            }
        }
    }

    // First block without unset bits: the run at position 0 fills the first block alone (the next
    // pair does not fit), followed by k tiny runs (32 per block), i.e. 2, 9, 10, ... blocks in total.
    for &first_len in &[(1u64 << 63) + 1, 1u64 << 63, (1u64 << 63) + 12345] {
        for &k in &[0usize, 31, 200, 224, 225, 256, 300, 600] {
            for &tail in &[0u64, 5] {
                let c = Case::Ladder { head: vec![(0u64, first_len), (1u64 << 60, (1u64 << 60) + 1)], k, tail };
                if ctx.mine(&c) {
                    ctx.count("first_block_without_zeros_cases", 1);
                    check_case(ctx, &c);
                }
            }
        }
    }
}

fn replay(ctx: &mut Ctx, v: &Value) {
    let c: Case = serde_json::from_value(v["bv"].clone()).expect("replay: not a C03 case");
    check_case(ctx, &c);
}

fn main() {
    vcore::run_driver("C03", explore, replay, hook_hits);
}
