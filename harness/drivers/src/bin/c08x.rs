//! C08 (own space) — safe call sequences that no other property enumerates because their *answers* are
//! not specified, but which must still stay inside the buffers: conversions from multiset sparse vectors,
//! zero-side queries on multisets, queries without the needed support structure, raw/integer vector
//! accessors with out-of-range arguments, and mapped views of EVERY type at EVERY offset of files the
//! library wrote (a view of the wrong type is either refused or lies inside the map).
//! Only out-of-bounds outcomes (bounds monitor, fatal signal, view outside the map) are verdicts here.

use drivers::catalogue::{self, sparse_multiset, BitsDesc, Desc};
use drivers::*;
use serde::{Deserialize, Serialize};
use simple_sds::bit_vector::rank_support::RankSupport;
use simple_sds::bit_vector::select_support::SelectSupport;
use simple_sds::bit_vector::{BitVector, Complement, Identity};
use simple_sds::int_vector::IntVector;
use simple_sds::ops::{Access, BitVec, PredSucc, Rank, Select, SelectZero, Vector};
use simple_sds::raw_vector::{AccessRaw, RawVector};
use simple_sds::rl_vector::RLVector;
use simple_sds::serialize::{MappingMode, MemoryMap};
use simple_sds::sparse_vector::SparseVector;
use vcore::enumr;

#[derive(Serialize, Deserialize, Clone, Debug, Hash)]
enum Case {
    MultisetConversions { universe: usize, values: Vec<usize> },
    NoSupport(BitsDesc),
    RawAccess(BitsDesc),
    IntAccess { width: usize, values: Vec<u64> },
    /// Every view type at every offset of the file made of these values.
    AnyViewAnywhere { descs: Vec<Desc> },
    /// The public rank / select support structures built for one bitvector and queried with another parent.
    ForeignSupport { own: BitsDesc, other: BitsDesc },
    /// A library-written structure of many megabytes is loaded again and touched at both ends.
    LargeLoad(String, usize),
}

/// Runs a call whose answer is not specified: only an out-of-bounds outcome counts.
macro_rules! safe {
    ($ctx:expr, $op:expr, $case:expr, $body:expr) => {{
        let r = guard(|| $body);
        $ctx.allow_panic(|| $op.to_string(), r, $case)
    }};
}

/// Every query of the bitvector interface with in-range and extreme arguments; answers are not judged.
macro_rules! poke_bitvec {
    ($ctx:expr, $bv:expr, $name:expr, $case:expr) => {{
        let bv = $bv;
        let case = $case;
        let len = safe!($ctx, format!("{}.len", $name), case, bv.len()).unwrap_or(0);
        let ones = safe!($ctx, format!("{}.count_ones", $name), case, bv.count_ones()).unwrap_or(0);
        let _ = safe!($ctx, format!("{}.count_zeros", $name), case, bv.count_zeros());
        let mut args: Vec<usize> = (0..=len.min(70) + 2).collect();
        args.extend(boundary_args(len));
        args.extend(boundary_args(ones));
        args.sort_unstable();
        args.dedup();
        for &i in &args {
            if i < len {
                let _ = safe!($ctx, format!("{}.get", $name), case, bv.get(i));
            }
            let _ = safe!($ctx, format!("{}.rank", $name), case, bv.rank(i));
            let _ = safe!($ctx, format!("{}.rank_zero", $name), case, if i <= len { bv.rank_zero(i) } else { 0 });
            let _ = safe!($ctx, format!("{}.select", $name), case, bv.select(i));
            let _ = safe!($ctx, format!("{}.select_zero", $name), case, bv.select_zero(i));
            let _ = safe!($ctx, format!("{}.select_iter", $name), case, bv.select_iter(i).take(3).count());
            let _ = safe!($ctx, format!("{}.select_zero_iter", $name), case, bv.select_zero_iter(i).take(3).count());
            let _ = safe!($ctx, format!("{}.predecessor", $name), case, bv.predecessor(i).take(3).count());
            let _ = safe!($ctx, format!("{}.successor", $name), case, bv.successor(i).take(3).count());
        }
        let _ = safe!($ctx, format!("{}.one_iter", $name), case, bv.one_iter().take(10_000).count());
        let _ = safe!($ctx, format!("{}.zero_iter", $name), case, bv.zero_iter().take(10_000).count());
        let _ = safe!($ctx, format!("{}.iter", $name), case, bv.iter().take(10_000).count());
    }};
}

fn multiset_conversions(ctx: &mut Ctx, universe: usize, values: &[usize]) {
    let c = Case::MultisetConversions { universe, values: values.to_vec() };
    let case = || serde_json::to_value(&c).unwrap();
    ctx.announce(case);
    ctx.nontrivial(&c);
    let ms = match guard(|| sparse_multiset(universe, values)) {
        Ok(ms) => ms,
        Err(_) => return,
    };
    // Zero-side queries on the multiset itself (documented as not meaningful; must stay in bounds).
    poke_bitvec!(ctx, &ms, "SparseVector(multiset)", case);
    // Conversions (may panic for overfull multisets).
    if let Some(mut bv) = safe!(ctx, "BitVector::copy_bit_vec(multiset)", case, BitVector::copy_bit_vec(&ms)) {
        let _ = safe!(ctx, "BitVector(from multiset).enable", case, enable_all(&mut bv));
        poke_bitvec!(ctx, &bv, "BitVector(from multiset)", case);
        let _ = safe!(ctx, "BitVector(from multiset).one_iter.rev", case, bv.one_iter().rev().take(10_000).count());
        let _ = safe!(ctx, "BitVector(from multiset).one_iter.nth", case, bv.one_iter().nth(values.len()));
    }
    if let Some(mut bv) = safe!(ctx, "BitVector::from(multiset)", case, BitVector::from(ms.clone())) {
        let _ = safe!(ctx, "BitVector(from multiset).enable", case, enable_all(&mut bv));
        poke_bitvec!(ctx, &bv, "BitVector(From multiset)", case);
    }
    // RLVector::copy_bit_vec feeds the positions to RLBuilder::set_bit_unchecked, whose precondition
    // (index >= len) a duplicate violates: the resulting vector is unspecified and its queries may not
    // terminate. That is not a memory-safety outcome, so only duplicate-free multisets are converted.
    let dup = values.windows(2).any(|w| w[0] == w[1]);
    if !dup {
        if let Some(rl) = safe!(ctx, "RLVector::copy_bit_vec(multiset)", case, RLVector::copy_bit_vec(&ms)) {
            poke_bitvec!(ctx, &rl, "RLVector(from multiset)", case);
        }
    }
    if let Some(sv) = safe!(ctx, "SparseVector::copy_bit_vec(multiset)", case, SparseVector::copy_bit_vec(&ms)) {
        poke_bitvec!(ctx, &sv, "SparseVector(copy of multiset)", case);
    }
}

fn no_support(ctx: &mut Ctx, bits: &BitsDesc) {
    let c = Case::NoSupport(bits.clone());
    let case = || serde_json::to_value(&c).unwrap();
    ctx.announce(case);
    ctx.nontrivial(&c);
    let m = bits.model();
    for mask in 0..8u8 {
        let bv = catalogue::bv_with_supports(bits, mask);
        poke_bitvec!(ctx, &bv, "BitVector(partial supports)", case);
        // the loaded copy as well
        if let Ok(l) = from_bytes::<BitVector>(&to_bytes(&bv)) {
            poke_bitvec!(ctx, &l, "BitVector(loaded, partial supports)", case);
        }
    }
    let _ = m;
}

/// `RankSupport::rank` and `SelectSupport::select` are safe public functions that take the parent as an
/// argument ("may panic" for arguments past the end): with any parent and any argument they may panic or
/// return garbage, but may not leave the buffers.
fn foreign_support(ctx: &mut Ctx, own: &BitsDesc, other: &BitsDesc) {
    let c = Case::ForeignSupport { own: own.clone(), other: other.clone() };
    let case = || serde_json::to_value(&c).unwrap();
    ctx.announce(case);
    ctx.nontrivial(&c);
    let a = bv_from_model(&own.model());
    let b = bv_from_model(&other.model());
    let rs = RankSupport::new(&a);
    let ss = SelectSupport::<Identity>::new(&a);
    let sz = SelectSupport::<Complement>::new(&a);
    let top = a.len().max(b.len());
    let mut args: Vec<usize> = (0..=top.min(140) + 2).collect();
    for base in [a.len(), b.len(), a.count_ones(), b.count_ones(), a.count_zeros(), b.count_zeros()] {
        args.extend(boundary_args(base));
        for k in [64usize, 512, 4096] {
            let r = base / k * k;
            args.extend([r.saturating_sub(1), r, r + 1, r + k - 1, r + k, r + k + 1]);
        }
    }
    args.sort_unstable();
    args.dedup();
    for parent in [&a, &b] {
        let which = if std::ptr::eq(parent, &a) { "own parent" } else { "foreign parent" };
        for &i in &args {
            let _ = safe!(ctx, format!("RankSupport.rank[{}]", which), case, rs.rank(parent, i));
            let _ = safe!(ctx, format!("SelectSupport<Identity>.select[{}]", which), case, ss.select(parent, i));
            let _ = safe!(ctx, format!("SelectSupport<Complement>.select[{}]", which), case, sz.select(parent, i));
        }
    }
}

fn large_load(ctx: &mut Ctx, kind: &str, n: usize) {
    use simple_sds::ops::Push;
    use simple_sds::raw_vector::PushRaw;
    let c = Case::LargeLoad(kind.to_string(), n);
    let case = || serde_json::to_value(&c).unwrap();
    ctx.announce(case);
    ctx.nontrivial(&c);
    let val = |i: usize| (i as u64).wrapping_mul(0x9E37_79B9_7F4A_7C15) ^ 0x0123_4567_89AB_CDEF;
    match kind {
        "VecU64" => {
            let bytes = to_bytes(&(0..n).map(val).collect::<Vec<u64>>());
            if let Some(Ok(mut v)) = safe!(ctx, "Vec<u64>(large).load", case, from_bytes::<Vec<u64>>(&bytes)) {
                let _ = safe!(ctx, "Vec<u64>(large, loaded).use", case, { v.push(1); (v[0], v[n - 1], v.len() <= v.capacity()) });
            }
        }
        "VecPair" => {
            let bytes = to_bytes(&(0..n).map(|i| (val(i), i as u64)).collect::<Vec<(u64, u64)>>());
            if let Some(Ok(mut v)) = safe!(ctx, "Vec<(u64,u64)>(large).load", case, from_bytes::<Vec<(u64, u64)>>(&bytes)) {
                let _ = safe!(ctx, "Vec<(u64,u64)>(large, loaded).use", case, { v.push((1, 1)); (v[0], v[n - 1]) });
            }
        }
        "IntVector37" => {
            let mut x = IntVector::with_capacity(n, 37).unwrap();
            for i in 0..n {
                x.push(val(i));
            }
            let bytes = to_bytes(&x);
            if let Some(Ok(mut v)) = safe!(ctx, "IntVector(large).load", case, from_bytes::<IntVector>(&bytes)) {
                let _ = safe!(ctx, "IntVector(large, loaded).use", case, { v.push(5); (v.get(0), v.get(n - 1), v.get(n)) });
            }
        }
        "BitVector" => {
            let mut raw = RawVector::with_capacity(n);
            for i in 0..n / 64 {
                unsafe { raw.push_int(val(i), 64) };
            }
            for i in 0..n % 64 {
                raw.push_bit(i % 3 == 0);
            }
            let mut bv = BitVector::from(raw);
            enable_all(&mut bv);
            let bytes = to_bytes(&bv);
            if let Some(Ok(v)) = safe!(ctx, "BitVector(large).load", case, from_bytes::<BitVector>(&bytes)) {
                let _ = safe!(ctx, "BitVector(large, loaded).use", case, (v.get(0), v.get(n - 1), v.rank(n), v.select(v.count_ones() - 1), v.select_zero(v.count_zeros() - 1), v.one_iter().rev().take(3).count()));
            }
        }
        _ => panic!("replay: not a C08x case"),
    }
}

fn raw_access(ctx: &mut Ctx, bits: &BitsDesc) {
    let c = Case::RawAccess(bits.clone());
    let case = || serde_json::to_value(&c).unwrap();
    ctx.announce(case);
    ctx.nontrivial(&c);
    let raw: RawVector = raw_from_model(&bits.model());
    let len = raw.len();
    for i in boundary_args(len).into_iter().chain(0..=len.min(130)) {
        let _ = safe!(ctx, "RawVector.bit", case, raw.bit(i));
        let _ = safe!(ctx, "RawVector.word", case, raw.word(i));
        for w in [0usize, 1, 7, 63, 64] {
            let _ = safe!(ctx, "RawVector.int", case, unsafe { raw.int(i, w) });
            let mut r2 = raw.clone();
            let _ = safe!(ctx, "RawVector.set_int", case, unsafe { r2.set_int(i, !0, w) });
            let _ = safe!(ctx, "RawVector.count_ones(after set_int)", case, r2.count_ones());
        }
        let mut r2 = raw.clone();
        let _ = safe!(ctx, "RawVector.set_bit", case, r2.set_bit(i, true));
        let mut r3 = raw.clone();
        let _ = safe!(ctx, "RawVector.resize", case, if i <= 1 << 20 { r3.resize(i, true) });
    }
}

fn int_access(ctx: &mut Ctx, width: usize, values: &[u64]) {
    let c = Case::IntAccess { width, values: values.to_vec() };
    let case = || serde_json::to_value(&c).unwrap();
    ctx.announce(case);
    ctx.nontrivial(&c);
    let iv: IntVector = catalogue::int_vector(width, values);
    for i in boundary_args(values.len()) {
        let _ = safe!(ctx, "IntVector.get", case, iv.get(i));
        let _ = safe!(ctx, "IntVector.get_or", case, iv.get_or(i, 1));
        let mut v2 = iv.clone();
        let _ = safe!(ctx, "IntVector.set", case, v2.set(i, !0));
        let _ = safe!(ctx, "IntVector.iter.nth", case, iv.iter().nth(i));
        let _ = safe!(ctx, "IntVector.iter.nth_back", case, iv.iter().nth_back(i));
    }
    let _ = iv.width();
}

/// Every view type at every offset of a library-written file.
fn any_view_anywhere(ctx: &mut Ctx, descs: &[Desc]) {
    let c = Case::AnyViewAnywhere { descs: descs.to_vec() };
    let case = || serde_json::to_value(&c).unwrap();
    ctx.announce(case);
    ctx.nontrivial(&c);
    let mut bytes = Vec::new();
    for d in descs {
        bytes.extend_from_slice(&catalogue::build(d).bytes());
    }
    let path = ctx.scratch.join("c08x.bin");
    std::fs::write(&path, &bytes).expect("scratch file");
    let map = match MemoryMap::new(&path, MappingMode::ReadOnly) {
        Ok(m) => m,
        Err(_) => return,
    };
    // One descriptor per view type (the content is irrelevant: mismatches are expected and ignored).
    let probes = [
        Desc::VecU64(vec![]),
        Desc::VecUsize(vec![]),
        Desc::VecPair(vec![]),
        Desc::Bytes(vec![]),
        Desc::Str(String::new()),
        Desc::OptVecU64(None),
        Desc::OptBytes(None),
        Desc::OptStr(None),
        Desc::Raw(BitsDesc::Word { len: 0, word: 0 }),
        Desc::Int { width: 1, values: vec![] },
        Desc::OptInt(None),
    ];
    for off in 0..=map.len() + 1 {
        for p in &probes {
            // The content comparison inside mapped_view reads the whole view through the safe accessors;
            // a view that reaches beyond the map is reported by `outside_map`.
            let got = guard(|| catalogue::mapped_view(p, &map, off));
            match got {
                Ok(Some(Ok(info))) => {
                    ctx.require_in_bounds(|| "mapped view of any type at any offset[lies inside the map]".to_string(), info.outside_map.is_none(), case, || json!({"observed": info.outside_map, "view_type": format!("{:?}", p), "offset": off}));
                }
                Ok(_) => ctx.eval(),
                Err(msg) => {
                    let _ = ctx.allow_panic::<()>(|| "mapped view of any type at any offset".to_string(), Err(msg), case);
                }
            }
        }
    }
    drop(map);
    let _ = std::fs::remove_file(&path);
}

fn explore(ctx: &mut Ctx) {
    let thorough = ctx.tier.is_thorough();
    let (u_max, k_max) = if thorough { (6, 6) } else { (4, 5) };
    for universe in 1..=u_max {
        for k in 0..=k_max {
            enumr::words_exact(universe, k, &mut |w| {
                if w.windows(2).all(|p| p[0] <= p[1]) {
                    let c = Case::MultisetConversions { universe, values: w.to_vec() };
                    if ctx.mine(&c) {
                        ctx.count("multiset_conversion_cases", 1);
                        ctx.sample_tagged("multiset-conversions", || serde_json::to_value(&c).unwrap());
                        multiset_conversions(ctx, universe, w);
                    }
                }
            });
        }
    }
    for (universe, values) in [(300usize, vec![63usize, 64, 64, 127, 128, 128, 299]), (70, vec![0; 40]), (64, vec![63; 70]), (4096, vec![5, 5, 4095, 4095])] {
        let c = Case::MultisetConversions { universe, values: values.clone() };
        if ctx.mine(&c) {
            multiset_conversions(ctx, universe, &values);
        }
    }
    let n = ctx.tier.pick(5, 7);
    for len in 0..=n {
        for word in 0..(1u64 << len) {
            let bits = BitsDesc::Word { len, word };
            if ctx.mine(&("nosupport", &bits)) {
                ctx.count("partial_support_cases", 1);
                ctx.sample_tagged("partial-supports", || json!({"NoSupport": bits}));
                no_support(ctx, &bits);
            }
            if ctx.mine(&("raw", &bits)) {
                raw_access(ctx, &bits);
            }
        }
    }
    for bits in [BitsDesc::Word { len: 64, word: !0 }, BitsDesc::Runs { pairs: vec![(0, 64), (1, 63)], tail: 0 }, BitsDesc::Runs { pairs: vec![(3, 509)], tail: 0 }] {
        if ctx.mine(&("nosupport", &bits)) {
            no_support(ctx, &bits);
            raw_access(ctx, &bits);
        }
    }
    // Loads of structures around the piece sizes a loader might use (1 MiB, 2^20 items, 8 MiB).
    for (k, (kind, n)) in [("VecU64", (1usize << 17) + 3), ("VecU64", (1 << 20) + 3), ("VecPair", (1 << 20) + 1), ("IntVector37", 1 << 21), ("BitVector", (1 << 26) + 70)].into_iter().enumerate() {
        if ctx.mine_index(500 + k as u64) {
            ctx.count("large_loads", 1);
            large_load(ctx, kind, n);
        }
    }
    // Support structures with their own and with foreign parents: small ones exhaustively, plus
    // word / block / superblock sized ones.
    let fs = ctx.tier.pick(4, 6);
    let mut shapes: Vec<BitsDesc> = Vec::new();
    for len in 0..=fs {
        for word in 0..(1u64 << len) {
            shapes.push(BitsDesc::Word { len, word });
        }
    }
    let small_shapes = shapes.len();
    for b in [
        BitsDesc::Word { len: 64, word: !0 },
        BitsDesc::Word { len: 63, word: 0x5555_5555_5555_5555 },
        BitsDesc::Runs { pairs: vec![(0, 100)], tail: 0 },
        BitsDesc::Runs { pairs: vec![(0, 128)], tail: 0 },
        BitsDesc::Runs { pairs: vec![(3, 509)], tail: 0 },
        BitsDesc::Runs { pairs: vec![(0, 300), (212, 1)], tail: 0 },
        BitsDesc::Runs { pairs: vec![(1, 1), (510, 1), (511, 1)], tail: 600 },
        BitsDesc::Letters(vec![enumr::Letter::Every(3, 5000)]),
        BitsDesc::Letters(vec![enumr::Letter::Ones(4097), enumr::Letter::Zeros(4097)]),
    ] {
        shapes.push(b);
    }
    for (i, own) in shapes.iter().enumerate() {
        for (j, other) in shapes.iter().enumerate() {
            // small x small exhaustively; every big shape against every shape
            if (i < small_shapes && j < small_shapes) || i >= small_shapes || j >= small_shapes {
                let c = Case::ForeignSupport { own: own.clone(), other: other.clone() };
                if ctx.mine(&c) {
                    ctx.count("foreign_support_cases", 1);
                    if i >= small_shapes && j >= small_shapes {
                        ctx.sample_tagged("foreign-support", || serde_json::to_value(&c).unwrap());
                    }
                    foreign_support(ctx, own, other);
                }
            }
        }
    }
    for w in [1usize, 7, 13, 63, 64] {
        let m = if w == 64 { !0u64 } else { (1u64 << w) - 1 };
        for k in [0usize, 1, 5, 10] {
            let c = Case::IntAccess { width: w, values: vec![m; k] };
            if ctx.mine(&c) {
                int_access(ctx, w, &vec![m; k]);
            }
        }
    }
    // Views of every type at every offset: singles and pairs of mappable and non-mappable values.
    let cat = catalogue::catalogue(false, ctx.seed_pattern());
    let small: Vec<&Desc> = cat.iter().filter(|d| catalogue::build(d).bytes().len() <= if thorough { 4096 } else { 400 }).collect();
    let mut job = 0u64;
    for d in &small {
        job += 1;
        if ctx.mine_index(job) {
            ctx.count("files_probed_at_every_offset", 1);
            ctx.sample_tagged("any-view-anywhere", || json!({"AnyViewAnywhere": {"descs": [d]}}));
            any_view_anywhere(ctx, &[(*d).clone()]);
        }
    }
    let step = (small.len() / ctx.tier.pick(12, 30)).max(1);
    let sub: Vec<&Desc> = small.iter().step_by(step).copied().collect();
    for a in &sub {
        for b in &sub {
            job += 1;
            if ctx.mine_index(job) {
                ctx.count("files_probed_at_every_offset", 1);
                any_view_anywhere(ctx, &[(*a).clone(), (*b).clone()]);
            }
        }
    }
}

fn replay(ctx: &mut Ctx, v: &Value) {
    let c: Case = serde_json::from_value(v.clone()).expect("replay: not a C08x case");
    match c {
        Case::MultisetConversions { universe, values } => multiset_conversions(ctx, universe, &values),
        Case::NoSupport(bits) => no_support(ctx, &bits),
        Case::RawAccess(bits) => raw_access(ctx, &bits),
        Case::IntAccess { width, values } => int_access(ctx, width, &values),
        Case::AnyViewAnywhere { descs } => any_view_anywhere(ctx, &descs),
        Case::ForeignSupport { own, other } => foreign_support(ctx, &own, &other),
        Case::LargeLoad(kind, n) => large_load(ctx, &kind, n),
    }
}

fn main() {
    vcore::run_driver("C08", explore, replay, hook_hits);
}
