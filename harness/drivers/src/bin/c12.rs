//! C12 — buffered file writers produce exactly the in-memory serialization.
//! E-hist: a state is a push history. Writers own a `File`, so every history is replayed on a fresh
//! writer in the worker's scratch directory, ended (close / close twice / drop), and the file that is
//! left is compared byte by byte with `serialize` of the equivalent in-memory vector.
//!
//! Space (quick / thorough), all of it enumerated, sharded by a running job index:
//! * IntVectorWriter: width in {1,2,7,8,13,31,32,33,63,64} / 1..=64 x buffer (items) in
//!   {0,1,2,3,5,8,64,65} x every item count 0..=min(3*items_per_buffer+2, 200 / 400) x value stream
//!   {all ones, position pattern ^ seed pattern} x {close, close twice, drop, drop while unwinding}, pushed one by one; the five
//!   `extend` element types at the counts around the flush boundaries; `new` (8 Mbit buffer) at small
//!   counts and at the counts just below / at / above its first flush for widths {63,64} / {13,31,32,33,63,64}.
//! * RawVectorWriter: every history of length <= 4 / 5 over a 12-letter alphabet (see `raw_alphabet`);
//!   configurations per history: see `Breadth` and `explore_raw`; 8 long prefixes that end just below /
//!   exactly at a buffer boundary, each followed by every history of length <= 2.
//! The flush model below only feeds regime counters and the input-class word of a signature
//! (noflush / exactfill / carry); it is never part of the oracle.

use drivers::*;
use serde::{Deserialize, Serialize};
use simple_sds::int_vector::{IntVector, IntVectorWriter};
use simple_sds::ops::{Push, Vector};
use simple_sds::raw_vector::{PushRaw, RawVector, RawVectorWriter};
use simple_sds::serialize;
use std::cell::Cell;
use std::io;
use std::path::Path;

//-----------------------------------------------------------------------------
// Cases

#[derive(Serialize, Deserialize, Clone, Copy, Debug, PartialEq, Eq)]
enum Ending {
    /// `close()`, then the writer goes out of scope.
    Close,
    /// `close()`, `close()` again (must be Ok and leave the bytes unchanged), then out of scope.
    CloseTwice,
    /// The open writer is dropped.
    Drop,
    /// The open writer is dropped by the unwinding of an unrelated panic (the statement speaks of dropping,
    /// whatever causes it; `std::thread::panicking()` is true inside the destructor).
    DropUnwinding,
}

#[derive(Serialize, Deserialize, Clone, Copy, Debug, PartialEq, Eq)]
enum How {
    Push,
    ExtendU8,
    ExtendU16,
    ExtendU32,
    ExtendU64,
    ExtendUsize,
}

#[derive(Serialize, Deserialize, Clone, Copy, Debug, PartialEq, Eq)]
enum Stream {
    /// Item i is `i * 0x9E3779B97F4A7C15 ^ pattern`.
    Pattern(u64),
    /// Every item is `u64::MAX` (bits above the width are set).
    Ones,
    /// Every item is 0 (a flush must not depend on the VALUE of the bits that spill over the buffer limit).
    Zeros,
    /// Items alternate between 0 and 1 (high bits of every item are zero).
    Small,
}

impl Stream {
    fn value(self, i: usize) -> u64 {
        match self {
            Stream::Pattern(p) => (i as u64).wrapping_mul(0x9E37_79B9_7F4A_7C15) ^ p,
            Stream::Ones => u64::MAX,
            Stream::Zeros => 0,
            Stream::Small => (i % 2) as u64,
        }
    }
}

#[derive(Serialize, Deserialize, Clone, Copy, Debug, PartialEq, Eq)]
enum RPush {
    Bit(bool),
    Int(u64, usize),
}

#[derive(Serialize, Deserialize, Clone, Debug)]
enum Case {
    /// `buf_items`: `Some(b)` = `with_buf_len(file, width, b)`, `None` = `new(file, width)`.
    Int { width: usize, buf_items: Option<usize>, n: usize, stream: Stream, how: How, ending: Ending },
    /// `buf_len`: `Some(b)` = `with_buf_len(file, header, b)`, `None` = `new(file, header)`.
    /// A non-empty `header` is the header of a parent structure; the writer is then ended with
    /// `close_with_header(header)` as a parent writer would do.
    Raw { buf_len: Option<usize>, header: Vec<u64>, pushes: Vec<RPush>, ending: Ending },
}

//-----------------------------------------------------------------------------
// Bookkeeping shared by the two kinds of runs

struct Fail {
    op: String,
    detail: String,
}

/// Which library call is running (for attributing a panic) and how much was done.
struct Tr {
    op: Cell<&'static str>,
    checks: Cell<u64>,
    transitions: Cell<u64>,
    on_disk_before_end: Cell<bool>,
}

impl Tr {
    fn new() -> Tr {
        Tr { op: Cell::new("harness"), checks: Cell::new(0), transitions: Cell::new(0), on_disk_before_end: Cell::new(false) }
    }
    #[inline]
    fn at(&self, op: &'static str) {
        self.op.set(op);
    }
    #[inline]
    fn tick(&self) {
        self.checks.set(self.checks.get() + 1);
    }
    #[inline]
    fn step(&self, n: u64) {
        self.transitions.set(self.transitions.get() + n);
    }
}

macro_rules! chk {
    ($tr:expr, $cond:expr, $op:expr, $($fmt:tt)*) => {
        $tr.tick();
        if !$cond {
            return Err(Fail { op: $op.to_string(), detail: format!($($fmt)*) });
        }
    };
}

fn round_up64(x: usize) -> usize {
    (x + 63) / 64 * 64
}

/// The flush threshold in bits that the documentation of `with_buf_len` / `new` promises.
fn buffer_bits(buf_len: Option<usize>) -> usize {
    match buf_len {
        None => RawVectorWriter::DEFAULT_BUFFER_SIZE,
        Some(b) => round_up64(b).max(64),
    }
}

/// Regime bookkeeping only (never part of the oracle): which flushes the push widths imply for a
/// buffer of `buf_bits` bits.
#[derive(Default, Clone, Copy)]
struct FlushModel {
    flushes: u64,
    exact: u64,
    carry: u64,
    bits: usize,
}

impl FlushModel {
    fn of(buf_bits: usize, widths: impl Iterator<Item = usize>) -> FlushModel {
        let mut m = FlushModel::default();
        let mut cur = 0usize;
        for w in widths {
            if w == 0 {
                continue;
            }
            cur += w;
            m.bits += w;
            if cur >= buf_bits {
                m.flushes += 1;
                if cur > buf_bits {
                    m.carry += 1;
                } else {
                    m.exact += 1;
                }
                cur -= buf_bits;
            }
        }
        m
    }
    fn class(&self) -> &'static str {
        if self.flushes == 0 {
            "noflush"
        } else if self.carry > 0 {
            "carry"
        } else {
            "exactfill"
        }
    }
}

fn words_of(b: &[u8], from: usize, n: usize) -> Vec<String> {
    b.chunks(8).skip(from).take(n).map(|c| c.iter().rev().map(|x| format!("{:02x}", x)).collect::<String>()).collect()
}

fn diff(got: &[u8], want: &[u8]) -> Option<String> {
    if got == want {
        return None;
    }
    let first = got.iter().zip(want.iter()).position(|(a, b)| a != b).unwrap_or(got.len().min(want.len()));
    let word = first / 8;
    Some(format!(
        "file has {} bytes, expected {}; first difference at byte {} (element {}); file elements from {}: {:?}, expected: {:?}",
        got.len(),
        want.len(),
        first,
        word,
        word.saturating_sub(1),
        words_of(got, word.saturating_sub(1), 4),
        words_of(want, word.saturating_sub(1), 4)
    ))
}

fn read_cmp(path: &Path, want: &[u8], tr: &Tr, op: impl FnOnce() -> String) -> Result<(), Fail> {
    tr.tick();
    tr.at("harness(read file)");
    match std::fs::read(path) {
        Err(e) => Err(Fail { op: op(), detail: format!("cannot read the file: {}", e) }),
        Ok(got) => match diff(&got, want) {
            None => Ok(()),
            Some(d) => Err(Fail { op: op(), detail: d }),
        },
    }
}

struct Names {
    close: &'static str,
    close2: &'static str,
    drop: &'static str,
    drop_closed: &'static str,
}

const INT_NAMES: Names = Names { close: "IntVectorWriter.close", close2: "IntVectorWriter.close[second]", drop: "IntVectorWriter.drop", drop_closed: "IntVectorWriter.drop[closed]" };
const RAW_NAMES: Names = Names { close: "RawVectorWriter.close", close2: "RawVectorWriter.close[second]", drop: "RawVectorWriter.drop", drop_closed: "RawVectorWriter.drop[closed]" };
const RAWH_NAMES: Names = Names {
    close: "RawVectorWriter.close_with_header",
    close2: "RawVectorWriter.close_with_header[second]",
    drop: "RawVectorWriter.drop",
    drop_closed: "RawVectorWriter.drop[closed]",
};

/// Ends the writer in `slot` and compares the file with `want`.
#[allow(clippy::too_many_arguments)]
fn finish<W>(
    slot: &mut Option<W>,
    nm: &Names,
    ending: Ending,
    tr: &Tr,
    path: &Path,
    want: &[u8],
    header_bytes: u64,
    class: &str,
    close: &dyn Fn(&mut W) -> io::Result<()>,
    is_open: &dyn Fn(&W) -> bool,
    load_check: &dyn Fn(&str) -> Result<(), Fail>,
) -> Result<(), Fail> {
    // Regime observation: did data reach the file before the ending (an intermediate flush)?
    if let Ok(md) = std::fs::metadata(path) {
        tr.on_disk_before_end.set(md.len() > header_bytes);
    }
    {
        let w = slot.as_ref().unwrap();
        tr.at("is_open");
        chk!(tr, is_open(w), format!("{}[is_open before]", nm.close), "is_open() = false before the writer was closed");
    }
    match ending {
        Ending::Close | Ending::CloseTwice => {
            let w = slot.as_mut().unwrap();
            tr.at(nm.close);
            let r = close(w);
            tr.step(1);
            chk!(tr, r.is_ok(), format!("{}[result]", nm.close), "returned {:?}", r);
            tr.at("is_open");
            chk!(tr, !is_open(w), format!("{}[is_open after]", nm.close), "is_open() = true after close");
            if ending == Ending::CloseTwice {
                read_cmp(path, want, tr, || format!("{}[bytes,{}]", nm.close, class))?;
                tr.at(nm.close2);
                let r = close(w);
                tr.step(1);
                chk!(tr, r.is_ok(), format!("{}[second,result]", nm.close), "the second close returned {:?}", r);
                tr.at("is_open");
                chk!(tr, !is_open(w), format!("{}[second,is_open after]", nm.close), "is_open() = true after the second close");
                read_cmp(path, want, tr, || format!("{}[second,bytes]", nm.close))?;
            }
            tr.at(nm.drop_closed);
            drop(slot.take());
            if ending == Ending::CloseTwice {
                read_cmp(path, want, tr, || format!("{}[bytes]", nm.drop_closed))?;
            } else {
                read_cmp(path, want, tr, || format!("{}[bytes,{}]", nm.close, class))?;
            }
            load_check(nm.close)
        }
        Ending::Drop => {
            tr.at(nm.drop);
            drop(slot.take());
            tr.step(1);
            read_cmp(path, want, tr, || format!("{}[bytes,{}]", nm.drop, class))?;
            load_check(nm.drop)
        }
        Ending::DropUnwinding => {
            tr.at(nm.drop);
            let w = slot.take();
            // `resume_unwind` starts an unwind without calling the panic hook; the writer is owned by the frame
            // that unwinds, so its destructor runs while the thread is panicking.
            let r = std::panic::catch_unwind(std::panic::AssertUnwindSafe(move || {
                let _owned = w;
                std::panic::resume_unwind(Box::new("verif: deliberate unwind"));
            }));
            tr.step(1);
            chk!(tr, r.is_err(), format!("{}[unwinding,harness]", nm.drop), "the deliberate unwind did not happen");
            read_cmp(path, want, tr, || format!("{}[unwinding,bytes,{}]", nm.drop, class))?;
            load_check(nm.drop)
        }
    }
}

//-----------------------------------------------------------------------------
// IntVectorWriter

#[allow(clippy::too_many_arguments)]
fn run_int(path: &Path, width: usize, buf_items: Option<usize>, n: usize, stream: Stream, how: How, ending: Ending, fm: &FlushModel, tr: &Tr, slot: &mut Option<IntVectorWriter>) -> Result<(), Fail> {
    // What each item becomes on its way in (the element type of the extended collection).
    let conv = |v: u64| -> u64 {
        match how {
            How::Push | How::ExtendU64 => v,
            How::ExtendUsize => v as usize as u64,
            How::ExtendU8 => v as u8 as u64,
            How::ExtendU16 => v as u16 as u64,
            How::ExtendU32 => v as u32 as u64,
        }
    };
    let vals: Vec<u64> = (0..n).map(|i| conv(stream.value(i))).collect();
    let mut reference = IntVector::new(width).expect("reference IntVector");
    for &v in &vals {
        reference.push(v);
    }
    let want = to_bytes(&reference);

    let ctor = if buf_items.is_some() { "IntVectorWriter.with_buf_len" } else { "IntVectorWriter.new" };
    tr.at(ctor);
    let made = match buf_items {
        Some(b) => IntVectorWriter::with_buf_len(path, width, b),
        None => IntVectorWriter::new(path, width),
    };
    tr.tick();
    match made {
        Ok(w) => *slot = Some(w),
        Err(e) => return Err(Fail { op: format!("{}[result]", ctor), detail: format!("returned Err({})", e) }),
    }
    {
        let w = slot.as_mut().unwrap();
        tr.at("IntVectorWriter.len");
        chk!(tr, w.len() == 0 && w.is_empty(), format!("{}[len]", ctor), "len() = {}, is_empty() = {} on a new writer", w.len(), w.is_empty());
        tr.at("IntVectorWriter.width");
        chk!(tr, w.width() == width, format!("{}[width]", ctor), "width() = {}, expected {}", w.width(), width);
        tr.at("IntVectorWriter.filename");
        chk!(tr, w.filename() == path, format!("{}[filename]", ctor), "filename() = {:?}, expected {:?}", w.filename(), path);

        macro_rules! extend_as {
            ($t:ty, $name:expr, $lenname:expr) => {{
                let items: Vec<$t> = (0..n).map(|i| stream.value(i) as $t).collect();
                tr.at($name);
                // `Extend` takes any iterator: one with an exact size hint (n % 3 == 0), one whose lower bound is 0
                // (a filter that keeps everything), one with no bounds at all (from_fn).
                match n % 3 {
                    0 => w.extend(items),
                    1 => w.extend(items.into_iter().filter(|_| true)),
                    _ => {
                        let mut it = items.into_iter();
                        w.extend(std::iter::from_fn(move || it.next()))
                    }
                }
                tr.step(n as u64);
                tr.at("IntVectorWriter.len");
                chk!(tr, w.len() == n, $lenname, "len() = {} after extending an empty writer with {} items", w.len(), n);
            }};
        }
        match how {
            How::Push => {
                for (i, &v) in vals.iter().enumerate() {
                    tr.at("IntVectorWriter.push");
                    w.push(v);
                    tr.step(1);
                    tr.at("IntVectorWriter.len");
                    chk!(tr, w.len() == i + 1, "IntVectorWriter.push[len]", "len() = {} after {} pushes", w.len(), i + 1);
                }
            }
            How::ExtendU8 => extend_as!(u8, "IntVectorWriter.extend[u8]", "IntVectorWriter.extend[u8,len]"),
            How::ExtendU16 => extend_as!(u16, "IntVectorWriter.extend[u16]", "IntVectorWriter.extend[u16,len]"),
            How::ExtendU32 => extend_as!(u32, "IntVectorWriter.extend[u32]", "IntVectorWriter.extend[u32,len]"),
            How::ExtendU64 => extend_as!(u64, "IntVectorWriter.extend[u64]", "IntVectorWriter.extend[u64,len]"),
            How::ExtendUsize => extend_as!(usize, "IntVectorWriter.extend[usize]", "IntVectorWriter.extend[usize,len]"),
        }
        tr.at("IntVectorWriter.len");
        chk!(tr, w.is_empty() == (n == 0) && w.width() == width, "IntVectorWriter.is_empty", "is_empty() = {}, width() = {} after {} items of width {}", w.is_empty(), w.width(), n, width);
    }

    let load_check = |base: &str| -> Result<(), Fail> {
        tr.tick();
        tr.at("serialize::load_from<IntVector>");
        match serialize::load_from::<IntVector, _>(path) {
            Ok(v) if v == reference => Ok(()),
            Ok(v) => Err(Fail { op: format!("{}[load]", base), detail: format!("the loaded vector differs from the reference: len {} width {}, expected len {} width {}", v.len(), v.width(), reference.len(), reference.width()) }),
            Err(e) => Err(Fail { op: format!("{}[load]", base), detail: format!("the file does not load as an IntVector: {}", e) }),
        }
    };
    finish(slot, &INT_NAMES, ending, tr, path, &want, 32, fm.class(), &|w: &mut IntVectorWriter| w.close(), &|w: &IntVectorWriter| w.is_open(), &load_check)
}

//-----------------------------------------------------------------------------
// RawVectorWriter

#[allow(clippy::too_many_arguments)]
fn run_raw(path: &Path, buf_len: Option<usize>, header: &[u64], pushes: &[RPush], ending: Ending, fm: &FlushModel, tr: &Tr, slot: &mut Option<RawVectorWriter>) -> Result<(), Fail> {
    let mut reference = RawVector::new();
    for p in pushes {
        match *p {
            RPush::Bit(b) => reference.push_bit(b),
            RPush::Int(v, w) => unsafe { reference.push_int(v, w) },
        }
    }
    // The parent's header elements come first, then the serialized vector.
    let mut want: Vec<u8> = Vec::new();
    for h in header {
        want.extend(to_bytes(h));
    }
    want.extend(to_bytes(&reference));

    let ctor = if buf_len.is_some() { "RawVectorWriter.with_buf_len" } else { "RawVectorWriter.new" };
    tr.at(ctor);
    let mut parent = header.to_vec();
    let made = match buf_len {
        Some(b) => RawVectorWriter::with_buf_len(path, &mut parent, b),
        None => RawVectorWriter::new(path, &mut parent),
    };
    tr.tick();
    match made {
        Ok(w) => *slot = Some(w),
        Err(e) => return Err(Fail { op: format!("{}[result]", ctor), detail: format!("returned Err({})", e) }),
    }
    {
        let w = slot.as_mut().unwrap();
        tr.at("RawVectorWriter.len");
        chk!(tr, w.len() == 0 && w.is_empty(), format!("{}[len]", ctor), "len() = {}, is_empty() = {} on a new writer", w.len(), w.is_empty());
        tr.at("RawVectorWriter.filename");
        chk!(tr, w.filename() == path, format!("{}[filename]", ctor), "filename() = {:?}, expected {:?}", w.filename(), path);
        let mut bits = 0usize;
        for p in pushes {
            match *p {
                RPush::Bit(b) => {
                    tr.at("RawVectorWriter.push_bit");
                    w.push_bit(b);
                    tr.step(1);
                    bits += 1;
                    tr.at("RawVectorWriter.len");
                    chk!(tr, w.len() == bits, "RawVectorWriter.push_bit[len]", "len() = {} after pushing {} bits", w.len(), bits);
                }
                RPush::Int(v, wd) => {
                    tr.at("RawVectorWriter.push_int");
                    unsafe { w.push_int(v, wd) };
                    tr.step(1);
                    bits += wd;
                    tr.at("RawVectorWriter.len");
                    chk!(tr, w.len() == bits, "RawVectorWriter.push_int[len]", "len() = {} after pushing {} bits", w.len(), bits);
                }
            }
        }
        chk!(tr, w.is_empty() == (bits == 0), "RawVectorWriter.is_empty", "is_empty() = {} after pushing {} bits", w.is_empty(), bits);
    }

    let load_check = |_: &str| -> Result<(), Fail> { Ok(()) };
    let header_bytes = 8 * (header.len() as u64 + 2);
    if header.is_empty() {
        finish(slot, &RAW_NAMES, ending, tr, path, &want, header_bytes, fm.class(), &|w: &mut RawVectorWriter| w.close(), &|w: &RawVectorWriter| w.is_open(), &load_check)
    } else {
        assert!(ending != Ending::Drop && ending != Ending::DropUnwinding, "not a C12 case: a writer with a parent header must be closed by the parent");
        let close = |w: &mut RawVectorWriter| {
            let mut parent = header.to_vec();
            w.close_with_header(&mut parent)
        };
        finish(slot, &RAWH_NAMES, ending, tr, path, &want, header_bytes, fm.class(), &close, &|w: &RawVectorWriter| w.is_open(), &load_check)
    }
}

//-----------------------------------------------------------------------------
// One history

fn run_case(ctx: &mut Ctx, case: &Case) {
    let path = ctx.scratch.join("c12-writer.bin");
    let tr = Tr::new();
    let case_json = || serde_json::to_value(case).unwrap();
    ctx.announce(case_json);
    // The file system as an environment answer: the path already holds a longer file full of other bytes
    // (a name reused for a shorter vector). The length of the leftover is derived from the case itself, so
    // a replay sees the same environment.
    let junk = if serde_json::to_string(case).map(|s| s.len() % 5 == 0).unwrap_or(false) { 65536 } else { 4096 };
    std::fs::write(&path, vec![0xEEu8; junk]).expect("scratch file");
    let (out, fm, kind) = match case {
        Case::Int { width, buf_items, n, stream, how, ending } => {
            let buf_bits = buffer_bits(buf_items.map(|b| b * width));
            let fm = FlushModel::of(buf_bits, std::iter::repeat(*width).take(*n));
            let mut slot: Option<IntVectorWriter> = None;
            let out = guard(|| run_int(&path, *width, *buf_items, *n, *stream, *how, *ending, &fm, &tr, &mut slot));
            if slot.is_some() {
                // Failed half way: the writer is dropped on its own so that a second panic cannot abort.
                let _ = guard(move || drop(slot));
            }
            ctx.sample_tagged("int-writer", case_json);
            (out, fm, "int")
        }
        Case::Raw { buf_len, header, pushes, ending } => {
            let fm = FlushModel::of(
                buffer_bits(*buf_len),
                pushes.iter().map(|p| match *p {
                    RPush::Bit(_) => 1,
                    RPush::Int(_, w) => w,
                }),
            );
            let mut slot: Option<RawVectorWriter> = None;
            let out = guard(|| run_raw(&path, *buf_len, header, pushes, *ending, &fm, &tr, &mut slot));
            if slot.is_some() {
                let _ = guard(move || drop(slot));
            }
            ctx.sample_tagged(if header.is_empty() { "raw-writer" } else { "raw-writer-parent-header" }, case_json);
            (out, fm, if header.is_empty() { "raw" } else { "rawhdr" })
        }
    };
    let _ = std::fs::remove_file(&path);

    ctx.states += 1;
    ctx.transitions += tr.transitions.get();
    ctx.evals_add(tr.checks.get());
    if fm.bits > 0 {
        ctx.nontrivial_by_construction(1);
    }
    ctx.count(&format!("{}_histories", kind), 1);
    ctx.count(&format!("{}_histories_{}", kind, fm.class()), 1);
    if fm.flushes > 0 {
        ctx.count(&format!("{}_histories_with_intermediate_flush", kind), 1);
    }
    if fm.carry > 0 {
        ctx.count(&format!("{}_histories_with_overflow_carried_over_a_flush", kind), 1);
    }
    if fm.exact > 0 {
        ctx.count(&format!("{}_histories_with_flush_of_exactly_full_buffer", kind), 1);
    }
    if tr.on_disk_before_end.get() {
        ctx.count(&format!("{}_histories_with_data_on_disk_before_the_end", kind), 1);
    }
    ctx.count_max("max_flushes_in_one_history", fm.flushes);
    ctx.count_max("max_bits_in_one_history", fm.bits as u64);

    match out {
        Ok(Ok(())) => {}
        Ok(Err(f)) => {
            ctx.require(|| f.op.clone(), false, case_json, || json!({"observed": f.detail}));
        }
        Err(msg) => ctx.panic_violation(tr.op.get(), &msg, None, case_json),
    }
}

//-----------------------------------------------------------------------------
// Enumeration

const ENDINGS: [Ending; 4] = [Ending::Close, Ending::CloseTwice, Ending::Drop, Ending::DropUnwinding];

fn explore_int(ctx: &mut Ctx, job: &mut u64) {
    let thorough = ctx.tier.is_thorough();
    let widths: Vec<usize> = if thorough { (1..=64).collect() } else { vec![1, 2, 7, 8, 13, 31, 32, 33, 63, 64] };
    let cap = ctx.tier.pick(200usize, 400usize);
    let streams: Vec<Stream> = if thorough { vec![Stream::Ones, Stream::Pattern(ctx.seed_pattern()), Stream::Zeros, Stream::Small] } else { vec![Stream::Ones, Stream::Pattern(ctx.seed_pattern()), Stream::Small] };
    let bufs = [0usize, 1, 2, 3, 5, 8, 64, 65];

    for &width in &widths {
        ctx.note("int_widths", width);
        for &b in &bufs {
            let buf_bits = buffer_bits(Some(b * width));
            ctx.note("int_buffer_bits", buf_bits);
            let ipb = buf_bits / width;
            let max_n = (3 * ipb + 2).min(cap);
            // push one by one: every count
            for n in 0..=max_n {
                let mine = ctx.mine_index(*job);
                *job += 1;
                if !mine {
                    continue;
                }
                for &stream in &streams[..if n == 0 { 1 } else { 2 }] {
                    for &ending in &ENDINGS {
                        run_case(ctx, &Case::Int { width, buf_items: Some(b), n, stream, how: How::Push, ending });
                    }
                }
            }
            // extend: counts around the flush boundaries
            let mut counts = vec![1, ipb.saturating_sub(1), ipb, ipb + 1, ipb + 2, 2 * ipb + 1, 2 * ipb + 2, max_n];
            counts.retain(|&n| n >= 1 && n <= max_n);
            counts.sort_unstable();
            counts.dedup();
            let mut hows = vec![How::ExtendU64, How::ExtendUsize];
            if width >= 8 {
                hows.push(How::ExtendU8);
            }
            if width >= 16 {
                hows.push(How::ExtendU16);
            }
            if width >= 32 {
                hows.push(How::ExtendU32);
            }
            for &n in &counts {
                let mine = ctx.mine_index(*job);
                *job += 1;
                if !mine {
                    continue;
                }
                for &how in &hows {
                    for &stream in &streams {
                        for &ending in &ENDINGS {
                            run_case(ctx, &Case::Int { width, buf_items: Some(b), n, stream, how, ending });
                        }
                    }
                }
            }
        }
        // default buffer (8 Mbit): small counts
        for n in [0usize, 1, 2, 3, 65, 200] {
            let mine = ctx.mine_index(*job);
            *job += 1;
            if !mine {
                continue;
            }
            for &stream in &streams[..if n == 0 { 1 } else { 2 }] {
                for &ending in &ENDINGS {
                    run_case(ctx, &Case::Int { width, buf_items: None, n, stream, how: How::Push, ending });
                    if n > 0 {
                        run_case(ctx, &Case::Int { width, buf_items: None, n, stream, how: How::ExtendU64, ending });
                    }
                }
            }
        }
    }
    // default buffer: counts just below / at / above the first flush of the 8 Mbit buffer
    let big: Vec<usize> = if thorough { vec![13, 31, 32, 33, 63, 64] } else { vec![63, 64] };
    for &width in &big {
        let ipb = RawVectorWriter::DEFAULT_BUFFER_SIZE / width;
        for n in [ipb - 1, ipb, ipb + 1, ipb + 2] {
            for &stream in &streams {
                for &ending in &ENDINGS {
                    let mine = ctx.mine_index(*job);
                    *job += 1;
                    if mine {
                        run_case(ctx, &Case::Int { width, buf_items: None, n, stream, how: How::Push, ending });
                        ctx.count("int_histories_around_the_default_buffer_boundary", 1);
                    }
                }
            }
        }
    }
}

fn raw_alphabet() -> Vec<RPush> {
    let mut a = vec![RPush::Bit(false), RPush::Bit(true)];
    for w in [0usize, 1, 7, 31, 32, 33, 63, 64] {
        a.push(RPush::Int(!0, w));
    }
    a.push(RPush::Int(0xA5A5_A5A5_A5A5_A5A5, 7));
    a.push(RPush::Int(0xA5A5_A5A5_A5A5_A5A5, 64));
    a
}

/// The `code`-th word of length `len` over the alphabet (base-|alphabet| digits, most significant first).
fn word(alphabet: &[RPush], len: usize, code: u64) -> Vec<RPush> {
    let k = alphabet.len() as u64;
    let mut out = vec![alphabet[0]; len];
    let mut c = code;
    for slot in out.iter_mut().rev() {
        *slot = alphabet[(c % k) as usize];
        c /= k;
    }
    out
}

/// How many writer configurations a history is run under.
#[derive(Clone, Copy, PartialEq, Eq)]
enum Breadth {
    /// buf_len in {0,1,64,65,128,192} x 3 endings, parent header [7,9] with buf_len in {64,128} x
    /// {close_with_header, twice}; with `default_buffer` also `new` (8 Mbit buffer), with and without header.
    All { default_buffer: bool },
    /// One buf_len per distinct rounded buffer size ({0,1,64} -> 64 bits, {65,128} -> 128, 192) x 3
    /// endings; with `parent_header` also [7,9] x buf_len {64,128} x close_with_header twice.
    Representatives { parent_header: bool },
}

/// Runs one push history under the writer configurations of `breadth` and every ending.
fn raw_configs(ctx: &mut Ctx, pushes: Vec<RPush>, breadth: Breadth) {
    let mut case = Case::Raw { buf_len: None, header: vec![], pushes, ending: Ending::Close };
    let mut run = |ctx: &mut Ctx, b: Option<usize>, h: &[u64], e: Ending| {
        if let Case::Raw { buf_len, header, ending, .. } = &mut case {
            *buf_len = b;
            header.clear();
            header.extend_from_slice(h);
            *ending = e;
        }
        run_case(ctx, &case);
    };
    // A writer below a parent is closed by the parent (`close_with_header`); dropping it while open
    // cannot know the parent's header, so that ending is not part of the property.
    match breadth {
        Breadth::All { default_buffer } => {
            let mut bufs: Vec<Option<usize>> = [0usize, 1, 64, 65, 128, 192].iter().map(|&b| Some(b)).collect();
            let mut hbufs: Vec<Option<usize>> = vec![Some(64), Some(128)];
            if default_buffer {
                bufs.push(None);
                hbufs.push(None);
            }
            for &b in &bufs {
                for &e in &ENDINGS {
                    run(ctx, b, &[], e);
                }
            }
            for &b in &hbufs {
                for &e in &[Ending::Close, Ending::CloseTwice] {
                    run(ctx, b, &[7, 9], e);
                }
            }
        }
        Breadth::Representatives { parent_header } => {
            for b in [64usize, 128, 192] {
                for &e in &ENDINGS {
                    run(ctx, Some(b), &[], e);
                }
            }
            if parent_header {
                for b in [64usize, 128] {
                    run(ctx, Some(b), &[7, 9], Ending::CloseTwice);
                }
            }
        }
    }
}

fn explore_raw(ctx: &mut Ctx, job: &mut u64) {
    let alphabet = raw_alphabet();
    let k = alphabet.len() as u64;
    let depth = ctx.tier.pick(4usize, 5usize);
    let thorough = ctx.tier.is_thorough();
    for b in [0usize, 1, 64, 65, 128, 192] {
        ctx.note("raw_buffer_bits", buffer_bits(Some(b)));
    }
    ctx.count_max("raw_history_depth", depth as u64);
    ctx.count_max("raw_alphabet_size", k);

    // every history up to the depth, shortest first
    for len in 0..=depth {
        for code in 0..k.pow(len as u32) {
            let mine = ctx.mine_index(*job);
            *job += 1;
            if mine {
                // The deepest level (the bulk of the histories) runs under one buf_len per distinct
                // rounded buffer size; all shallower levels run under every configuration.
                let breadth = if len <= 2 {
                    Breadth::All { default_buffer: true }
                } else if len < depth {
                    Breadth::All { default_buffer: false }
                } else {
                    Breadth::Representatives { parent_header: thorough }
                };
                raw_configs(ctx, word(&alphabet, len, code), breadth);
            }
        }
    }

    // a second alphabet of small values (zero bits where an item straddles the buffer limit), same depth
    let small: Vec<RPush> = vec![RPush::Bit(false), RPush::Bit(true), RPush::Int(0, 63), RPush::Int(1, 33), RPush::Int(0, 64), RPush::Int(2, 7), RPush::Int(!0, 31)];
    let ks = small.len() as u64;
    for len in 1..=depth.min(if thorough { 5 } else { 3 }) {
        for code in 0..ks.pow(len as u32) {
            let mine = ctx.mine_index(*job);
            *job += 1;
            if mine {
                ctx.count("raw_histories_small_values", 1);
                raw_configs(ctx, word(&small, len, code), Breadth::All { default_buffer: false });
            }
        }
    }

    // long prefixes that end just below / exactly at a buffer boundary, then every history of length <= 2
    let bits = |n: usize, period: usize| -> Vec<RPush> { (0..n).map(|i| RPush::Bit(i % period == 0)).collect() };
    let prefixes: Vec<Vec<RPush>> = vec![
        bits(64, 1),
        bits(64, 3),
        bits(63, 2),
        bits(127, 5),
        bits(128, 7),
        bits(191, 4),
        bits(192, 6),
        vec![RPush::Int(0xA5A5_A5A5_A5A5_A5A5, 64); 6],
    ];
    for prefix in &prefixes {
        for len in 0..=2usize {
            for code in 0..k.pow(len as u32) {
                let mine = ctx.mine_index(*job);
                *job += 1;
                if mine {
                    let mut pushes = prefix.clone();
                    pushes.extend(word(&alphabet, len, code));
                    raw_configs(ctx, pushes, Breadth::All { default_buffer: false });
                    ctx.count("raw_long_prefix_histories", 1);
                }
            }
        }
    }
}

fn explore(ctx: &mut Ctx) {
    let mut job = 0u64;
    explore_int(ctx, &mut job);
    explore_raw(ctx, &mut job);
}

fn replay(ctx: &mut Ctx, v: &Value) {
    let c: Case = serde_json::from_value(v.clone()).expect("replay: not a C12 case");
    run_case(ctx, &c);
}

fn main() {
    vcore::run_driver("C12", explore, replay, hook_hits);
}
