// catalogue of serializable values (filled in later)
