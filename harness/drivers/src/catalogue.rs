//! A catalogue of serializable values of every `Serialize` type, described by replayable
//! descriptors, and a type-erased view (`Ser`) that lets drivers treat them uniformly.

use crate::{bv_from_model, raw_from_model, rl_from_model, sparse_from_model, Bits};
use serde::{Deserialize, Serialize as SerdeSerialize};
use simple_sds::bit_vector::rank_support::RankSupport;
use simple_sds::bit_vector::select_support::SelectSupport;
use simple_sds::bit_vector::{BitVector, Complement, Identity};
use simple_sds::int_vector::IntVector;
use simple_sds::ops::{Pop, Push, Rank, Resize, Select, SelectZero};
use simple_sds::raw_vector::{PopRaw, PushRaw, RawVector};
use simple_sds::serialize::Serialize;
use simple_sds::sparse_vector::{SparseBuilder, SparseVector};
use simple_sds::wavelet_matrix::wm_core::WMCore;
use simple_sds::wavelet_matrix::WaveletMatrix;
use std::any::Any;
use std::convert::TryFrom;
use std::fmt::Debug;
use std::io;
use vcore::enumr::Letter;

/// A bit sequence description.
#[derive(SerdeSerialize, Deserialize, Clone, Debug, Hash, PartialEq, Eq)]
pub enum BitsDesc {
    Word { len: usize, word: u64 },
    Letters(Vec<Letter>),
    Runs { pairs: Vec<(u64, u64)>, tail: u64 },
}

impl BitsDesc {
    pub fn model(&self) -> Bits {
        match self {
            BitsDesc::Word { len, word } => Bits::from_word(*word, *len),
            BitsDesc::Letters(l) => {
                let (len, runs) = vcore::enumr::word_runs(l);
                Bits::from_runs(len, &runs)
            }
            BitsDesc::Runs { pairs, tail } => {
                let mut runs = Vec::new();
                let mut at = 0u128;
                for &(g, l) in pairs {
                    at += g as u128;
                    runs.push((at, l as u128));
                    at += l as u128;
                }
                Bits::from_runs(at + *tail as u128, &runs)
            }
        }
    }
}

/// A replayable description of one serializable value.
#[derive(SerdeSerialize, Deserialize, Clone, Debug, Hash, PartialEq, Eq)]
pub enum Desc {
    U64(u64),
    Usize(usize),
    Pair(u64, u64),
    VecU64(Vec<u64>),
    VecUsize(Vec<usize>),
    VecPair(Vec<(u64, u64)>),
    Bytes(Vec<u8>),
    Str(String),
    OptVecU64(Option<Vec<u64>>),
    OptBytes(Option<Vec<u8>>),
    OptStr(Option<String>),
    OptU64(Option<u64>),
    OptOptVecU64(Option<Option<Vec<u64>>>),
    OptOptStr(Option<Option<String>>),
    Raw(BitsDesc),
    Int { width: usize, values: Vec<u64> },
    /// The same values as `Raw` / `Int`, but reached through a history: everything pushed, then more pushed
    /// (bits, a word-straddling integer) and popped again, resized up and back down.
    RawHist(BitsDesc),
    IntHist { width: usize, values: Vec<u64> },
    OptInt(Option<(usize, Vec<u64>)>),
    /// Plain bitvector with a subset of supports: bit 0 rank, bit 1 select, bit 2 select_zero.
    Bv { bits: BitsDesc, supports: u8 },
    OptBv(Option<(BitsDesc, u8)>),
    OptSparse(Option<BitsDesc>),
    OptRl(Option<BitsDesc>),
    OptWm(Option<Vec<u64>>),
    Sparse(BitsDesc),
    /// Multiset sparse vector: universe and non-decreasing values.
    SparseMulti { universe: usize, values: Vec<usize> },
    Rl(BitsDesc),
    WmCore(Vec<u64>),
    Wm(Vec<u64>),
    RankSup(BitsDesc),
    SelSup(BitsDesc),
    SelZeroSup(BitsDesc),
}

/// Type-erased serializable value.
pub trait Ser: Any {
    fn kind(&self) -> &'static str;
    fn bytes(&self) -> Vec<u8>;
    fn write_to(&self, w: &mut dyn io::Write) -> io::Result<()>;
    fn size_elems(&self) -> usize;
    fn size_bytes(&self) -> usize;
    /// Loads a value of the same type from the reader.
    fn load_same(&self, r: &mut dyn io::Read) -> io::Result<Box<dyn Ser>>;
    /// `serialize::serialize_to`.
    fn save_to(&self, path: &std::path::Path) -> io::Result<()>;
    /// `serialize::load_from` of the same type.
    fn load_file(&self, path: &std::path::Path) -> io::Result<Box<dyn Ser>>;
    fn eq_dyn(&self, other: &dyn Ser) -> bool;
    fn debug(&self) -> String;
    fn as_any(&self) -> &dyn Any;
}

impl<T: Serialize + PartialEq + Debug + 'static> Ser for T {
    fn kind(&self) -> &'static str {
        std::any::type_name::<T>()
    }
    fn bytes(&self) -> Vec<u8> {
        let mut v = Vec::new();
        self.serialize(&mut v).expect("serializing into a Vec cannot fail");
        v
    }
    fn write_to(&self, mut w: &mut dyn io::Write) -> io::Result<()> {
        self.serialize(&mut w)
    }
    fn size_elems(&self) -> usize {
        self.size_in_elements()
    }
    fn size_bytes(&self) -> usize {
        self.size_in_bytes()
    }
    fn load_same(&self, mut r: &mut dyn io::Read) -> io::Result<Box<dyn Ser>> {
        let v = T::load(&mut r)?;
        Ok(Box::new(v))
    }
    fn save_to(&self, path: &std::path::Path) -> io::Result<()> {
        simple_sds::serialize::serialize_to(self, path)
    }
    fn load_file(&self, path: &std::path::Path) -> io::Result<Box<dyn Ser>> {
        let v: T = simple_sds::serialize::load_from(path)?;
        Ok(Box::new(v))
    }
    fn eq_dyn(&self, other: &dyn Ser) -> bool {
        match other.as_any().downcast_ref::<T>() {
            Some(o) => self == o,
            None => false,
        }
    }
    fn debug(&self) -> String {
        let s = format!("{:?}", self);
        if s.len() > 300 { format!("{}...", &s[..300]) } else { s }
    }
    fn as_any(&self) -> &dyn Any {
        self
    }
}

pub fn int_vector(width: usize, values: &[u64]) -> IntVector {
    let mut v = IntVector::new(width).unwrap();
    for &x in values {
        v.push(x);
    }
    v
}

pub fn bv_with_supports(bits: &BitsDesc, supports: u8) -> BitVector {
    let mut bv = BitVector::from(raw_from_model(&bits.model()));
    if supports & 1 != 0 {
        bv.enable_rank();
    }
    if supports & 2 != 0 {
        bv.enable_select();
    }
    if supports & 4 != 0 {
        bv.enable_select_zero();
    }
    bv
}

pub fn sparse_multiset(universe: usize, values: &[usize]) -> SparseVector {
    let mut b = SparseBuilder::multiset(universe, values.len());
    for &v in values {
        b.set(v);
    }
    SparseVector::try_from(b).unwrap()
}

/// Builds the described value through the library's safe API.
pub fn build(d: &Desc) -> Box<dyn Ser> {
    match d {
        Desc::U64(v) => Box::new(*v),
        Desc::Usize(v) => Box::new(*v),
        Desc::Pair(a, b) => Box::new((*a, *b)),
        Desc::VecU64(v) => Box::new(v.clone()),
        Desc::VecUsize(v) => Box::new(v.clone()),
        Desc::VecPair(v) => Box::new(v.clone()),
        Desc::Bytes(v) => Box::new(v.clone()),
        Desc::Str(s) => Box::new(s.clone()),
        Desc::OptVecU64(o) => Box::new(o.clone()),
        Desc::OptBytes(o) => Box::new(o.clone()),
        Desc::OptStr(o) => Box::new(o.clone()),
        Desc::OptU64(o) => Box::new(*o),
        Desc::OptOptVecU64(o) => Box::new(o.clone()),
        Desc::OptOptStr(o) => Box::new(o.clone()),
        Desc::Raw(b) => Box::new(raw_from_model(&b.model())),
        Desc::Int { width, values } => Box::new(int_vector(*width, values)),
        Desc::RawHist(b) => {
            let m = b.model();
            let mut raw = RawVector::new();
            for bit in m.to_bools() {
                raw.push_bit(bit);
            }
            let n = raw.len();
            raw.resize(n + 70, true);
            raw.resize(n, false);
            raw.push_bit(true);
            raw.pop_bit();
            // the pops come last: nothing after them may repair what they leave behind
            unsafe {
                raw.push_int(!0u64, 64);
                raw.push_int(0x2AAA, 13);
                raw.pop_int(13);
                raw.pop_int(64);
            }
            Box::new(raw)
        }
        Desc::IntHist { width, values } => {
            let mut v = int_vector(*width, values);
            let n = v.len();
            v.resize(n + 3, !0u64);
            v.resize(n, 0);
            for _ in 0..6 {
                v.push(!0u64);
            }
            for _ in 0..6 {
                v.pop();
            }
            Box::new(v)
        }
        Desc::OptInt(o) => Box::new(o.as_ref().map(|(w, v)| int_vector(*w, v))),
        Desc::Bv { bits, supports } => Box::new(bv_with_supports(bits, *supports)),
        Desc::OptBv(o) => Box::new(o.as_ref().map(|(b, s)| bv_with_supports(b, *s))),
        Desc::OptSparse(o) => Box::new(o.as_ref().map(|b| sparse_from_model(&b.model()).expect("catalogue: sparse builder refused a valid set"))),
        Desc::OptRl(o) => Box::new(o.as_ref().map(|b| rl_from_model(&b.model()).expect("catalogue: rl builder refused a valid run list"))),
        Desc::OptWm(o) => Box::new(o.as_ref().map(|v| WaveletMatrix::from(v.clone()))),
        Desc::Sparse(b) => Box::new(sparse_from_model(&b.model()).expect("catalogue: sparse builder refused a valid set")),
        Desc::SparseMulti { universe, values } => Box::new(sparse_multiset(*universe, values)),
        Desc::Rl(b) => Box::new(rl_from_model(&b.model()).expect("catalogue: rl builder refused a valid run list")),
        Desc::WmCore(v) => Box::new(WMCore::from(v.clone())),
        Desc::Wm(v) => Box::new(WaveletMatrix::from(v.clone())),
        Desc::RankSup(b) => Box::new(RankSupport::new(&bv_from_model(&b.model()))),
        Desc::SelSup(b) => Box::new(SelectSupport::<Identity>::new(&bv_from_model(&b.model()))),
        Desc::SelZeroSup(b) => Box::new(SelectSupport::<Complement>::new(&bv_from_model(&b.model()))),
    }
}

fn bits_catalogue(big: bool) -> Vec<BitsDesc> {
    use Letter::*;
    let mut v = vec![
        BitsDesc::Word { len: 0, word: 0 },
        BitsDesc::Word { len: 1, word: 1 },
        BitsDesc::Word { len: 7, word: 0b1011001 },
        BitsDesc::Word { len: 63, word: !0 >> 1 },
        BitsDesc::Word { len: 64, word: 0x8000_0000_0000_0001 },
        BitsDesc::Letters(vec![Ones(1), Zeros(63), Ones(1)]),
        BitsDesc::Letters(vec![Every(3, 200), Zeros(13)]),
        BitsDesc::Letters(vec![Zeros(511), Ones(2)]),
    ];
    if big {
        v.push(BitsDesc::Letters(vec![Every(3, 5000), Ones(4097)]));
        v.push(BitsDesc::Letters(vec![Every(25000, 5), Zeros(1)]));
    }
    v
}

/// The catalogue. `big` adds multi-block / multi-superblock instances.
pub fn catalogue(big: bool, seed_pattern: u64) -> Vec<Desc> {
    let mut c: Vec<Desc> = vec![
        Desc::U64(0),
        Desc::U64(seed_pattern),
        Desc::Usize(usize::MAX),
        Desc::Pair(1, u64::MAX),
        Desc::VecU64(vec![]),
        Desc::VecU64(vec![7]),
        Desc::VecU64(vec![1, 0, u64::MAX]),
        Desc::VecUsize(vec![3, usize::MAX]),
        Desc::VecPair(vec![]),
        Desc::VecPair(vec![(1, 2), (u64::MAX, 0)]),
    ];
    for len in 0..=17usize {
        if big || len <= 2 || len == 7 || len == 8 || len == 9 || len == 16 || len == 17 {
            c.push(Desc::Bytes((0..len).map(|i| (i * 37 + 1) as u8).collect()));
        }
    }
    for len in [0usize, 1, 7, 8, 9, 17] {
        c.push(Desc::Str("abcdefghijklmnopqrstuvwxyz"[..len].to_string()));
    }
    c.push(Desc::Str("å∫ç∂´ƒ©".to_string()));
    c.push(Desc::Str("ΑΒΓ😀x".to_string()));
    c.extend([
        Desc::OptVecU64(None),
        Desc::OptVecU64(Some(vec![])),
        Desc::OptVecU64(Some(vec![9, 8])),
        Desc::OptBytes(None),
        Desc::OptBytes(Some(vec![1, 2, 3])),
        Desc::OptStr(Some("héllo".to_string())),
        Desc::OptU64(None),
        Desc::OptU64(Some(5)),
        Desc::OptOptVecU64(None),
        Desc::OptOptVecU64(Some(None)),
        Desc::OptOptVecU64(Some(Some(vec![4]))),
        Desc::OptOptStr(Some(Some("xyz".to_string()))),
    ]);
    for b in bits_catalogue(big) {
        c.push(Desc::Raw(b.clone()));
        for s in 0..8u8 {
            if big || s == 0 || s == 7 || matches!(b, BitsDesc::Word { len: 7, .. }) {
                c.push(Desc::Bv { bits: b.clone(), supports: s });
            }
        }
        c.push(Desc::Sparse(b.clone()));
        c.push(Desc::Rl(b.clone()));
    }
    c.push(Desc::OptBv(None));
    c.push(Desc::OptBv(Some((BitsDesc::Word { len: 7, word: 0b1011001 }, 7))));
    c.push(Desc::OptBv(Some((BitsDesc::Word { len: 7, word: 0b1011001 }, 0))));
    for w in [1usize, 2, 7, 8, 13, 31, 32, 33, 63, 64] {
        let m = if w == 64 { !0 } else { (1u64 << w) - 1 };
        c.push(Desc::Int { width: w, values: vec![] });
        c.push(Desc::Int { width: w, values: vec![m, 0, seed_pattern & m, 1] });
    }
    if big {
        for w in 1..=64usize {
            let m = if w == 64 { !0 } else { (1u64 << w) - 1 };
            c.push(Desc::Int { width: w, values: (0..9u64).map(|i| (i.wrapping_mul(0x9E37_79B9_7F4A_7C15) ^ seed_pattern) & m).collect() });
        }
    }
    c.push(Desc::OptSparse(None));
    c.push(Desc::OptSparse(Some(BitsDesc::Letters(vec![Letter::Every(3, 200), Letter::Zeros(13)]))));
    c.push(Desc::OptRl(None));
    c.push(Desc::OptRl(Some(BitsDesc::Runs { pairs: std::iter::repeat((1u64, 1u64)).take(288).collect(), tail: 3 })));
    c.push(Desc::OptWm(None));
    c.push(Desc::OptWm(Some(vec![3, 1, 4, 1, 5, 9, 2, 6])));
    c.push(Desc::OptInt(None));
    c.push(Desc::OptInt(Some((13, vec![1, 2, 8191]))));
    // Values reached through push / pop / resize histories (not freshly built).
    c.push(Desc::RawHist(BitsDesc::Word { len: 0, word: 0 }));
    c.push(Desc::RawHist(BitsDesc::Word { len: 2, word: 1 }));
    c.push(Desc::RawHist(BitsDesc::Word { len: 63, word: !0 >> 1 }));
    c.push(Desc::RawHist(BitsDesc::Letters(vec![Letter::Ones(1), Letter::Zeros(63), Letter::Ones(2)])));
    c.push(Desc::IntHist { width: 13, values: vec![1, 2, 8191, 0] });
    c.push(Desc::IntHist { width: 13, values: vec![] });
    c.push(Desc::IntHist { width: 64, values: vec![!0, 5] });
    c.push(Desc::IntHist { width: 1, values: vec![1; 65] });
    c.push(Desc::SparseMulti { universe: 5, values: vec![0, 0, 3, 3, 3, 4] });
    c.push(Desc::SparseMulti { universe: 3, values: vec![1, 1, 1, 1, 2] });
    c.push(Desc::SparseMulti { universe: 300, values: vec![63, 64, 64, 127, 128, 128, 299] });
    // Run-length vectors with 1, 8, 9 and many blocks.
    for k in [31usize, 32, 33, 256, 288, 300] {
        if big || k == 33 || k == 288 {
            c.push(Desc::Rl(BitsDesc::Runs { pairs: std::iter::repeat((1u64, 1u64)).take(k).collect(), tail: 3 }));
        }
    }
    // Fill levels of the final block: f code units in all (two per (1, 1) run, three for a closing (8, 1) run), so
    // that the last block holds 61..64 units, or exactly 63 behind a full block ("no padding in a final block
    // that is not full" has a corner at one free unit, where no further run could start).
    for f in [61usize, 62, 63, 64, 65, 127] {
        if big || f == 63 || f == 127 {
            let mut pairs: Vec<(u64, u64)> = std::iter::repeat((1u64, 1u64)).take(if f % 2 == 0 { f / 2 } else { (f - 3) / 2 }).collect();
            if f % 2 == 1 {
                pairs.push((8, 1));
            }
            c.push(Desc::Rl(BitsDesc::Runs { pairs, tail: 3 }));
        }
    }
    c.push(Desc::Rl(BitsDesc::Runs { pairs: vec![(0, 1 << 40), (1 << 50, 1 << 60)], tail: 1 << 61 }));
    c.push(Desc::Sparse(BitsDesc::Runs { pairs: vec![(0, 1), ((1 << 62) - 1, 2)], tail: (1 << 63) + 5 }));
    for v in [vec![], vec![0u64], vec![1, 0, 1, 0], vec![3, 1, 4, 1, 5, 9, 2, 6], vec![0, 65535, 1, 32768]] {
        c.push(Desc::WmCore(v.clone()));
        c.push(Desc::Wm(v));
    }
    // A core with all 64 levels (only the core: the wavelet matrix proper keeps a table with max + 1 entries).
    c.push(Desc::WmCore(vec![1 << 63, 5, (1 << 63) + 7, 0]));
    for b in bits_catalogue(big).into_iter().skip(2) {
        c.push(Desc::RankSup(b.clone()));
        c.push(Desc::SelSup(b.clone()));
        c.push(Desc::SelZeroSup(b));
    }
    c
}

/// Values that have a memory-mapped view type.
pub fn is_mappable(d: &Desc) -> bool {
    matches!(d, Desc::VecU64(_) | Desc::VecUsize(_) | Desc::VecPair(_) | Desc::Bytes(_) | Desc::Str(_) | Desc::OptVecU64(_) | Desc::OptBytes(_) | Desc::OptStr(_) | Desc::Raw(_) | Desc::Int { .. } | Desc::RawHist(_) | Desc::IntHist { .. } | Desc::OptInt(_))
}

/// Keeps the compiler honest about the trait imports used above.
#[allow(dead_code)]
fn _uses(bv: &mut BitVector) {
    bv.enable_rank();
    bv.enable_select();
    bv.enable_select_zero();
    let _: &RawVector = bv.as_ref();
}

//-----------------------------------------------------------------------------
// Memory-mapped views of catalogue values

use simple_sds::int_vector::IntVectorMapper;
use simple_sds::ops::{Access, Vector};
use simple_sds::raw_vector::{AccessRaw, RawVectorMapper};
use simple_sds::serialize::{MappedBytes, MappedOption, MappedSlice, MappedStr, MemoryMap, MemoryMapped};

/// What a view created at some offset exposes.
#[derive(Debug, PartialEq, Eq)]
pub struct ViewInfo {
    pub offset: usize,
    pub len: usize,
    /// `None` if the view exposes exactly the content the descriptor describes, else a description.
    pub mismatch: Option<String>,
    /// `None` if the memory the view exposes lies inside the map's element slice, else a description.
    pub outside_map: Option<String>,
}

fn outside<T>(map: &MemoryMap, data: &[T]) -> Option<String> {
    let m: &[u64] = map.as_ref();
    let (lo, hi) = (m.as_ptr() as usize, m.as_ptr() as usize + 8 * m.len());
    // In u128: a corrupted view may claim more than 2^64 bytes.
    let a = data.as_ptr() as usize as u128;
    let b = a + data.len() as u128 * std::mem::size_of::<T>() as u128;
    if data.is_empty() || (a >= lo as u128 && b <= hi as u128) {
        None
    } else {
        Some(format!("the view exposes bytes {:#x}..{:#x}, the map covers {:#x}..{:#x}", a, b, lo, hi))
    }
}

fn raw_view_mismatch(view: &RawVectorMapper, m: &Bits) -> Option<String> {
    if view.len() as u128 != m.len || view.is_empty() != (m.len == 0) {
        return Some(format!("RawVectorMapper.len() = {}, expected {}", view.len(), m.len));
    }
    let expect = raw_from_model(m);
    for i in 0..expect.len() {
        if view.bit(i) != expect.bit(i) {
            return Some(format!("RawVectorMapper.bit({}) differs", i));
        }
    }
    let words: &[u64] = expect.as_ref();
    for (i, &w) in words.iter().enumerate() {
        if view.word(i) != w || unsafe { view.word_unchecked(i) } != w {
            return Some(format!("RawVectorMapper.word({}) differs", i));
        }
    }
    // integers of several widths at every bit offset of the first words (aligned, unaligned, straddling)
    for off in 0..expect.len().min(200) {
        for w in [0usize, 1, 7, 13, 32, 63, 64] {
            if off + w <= expect.len() && unsafe { view.int(off, w) != expect.int(off, w) } {
                return Some(format!("RawVectorMapper.int({}, {}) differs", off, w));
            }
        }
    }
    if view.count_ones() != expect.count_ones() {
        return Some("RawVectorMapper.count_ones() differs".to_string());
    }
    if view.is_mutable() {
        return Some("RawVectorMapper.is_mutable() is true".to_string());
    }
    None
}

fn int_view_mismatch(view: &IntVectorMapper, width: usize, values: &[u64]) -> Option<String> {
    if view.len() != values.len() || view.width() != width || view.is_empty() != values.is_empty() {
        return Some(format!("IntVectorMapper (len, width) = ({}, {}), expected ({}, {})", view.len(), view.width(), values.len(), width));
    }
    for (i, &v) in values.iter().enumerate() {
        if view.get(i) != v {
            return Some(format!("IntVectorMapper.get({}) = {}, expected {}", i, view.get(i), v));
        }
    }
    let it: Vec<u64> = view.iter().collect();
    if it != values || view.iter().len() != values.len() {
        return Some("IntVectorMapper.iter() differs".to_string());
    }
    if view.is_mutable() {
        return Some("IntVectorMapper.is_mutable() is true".to_string());
    }
    None
}

fn info<'a, T: MemoryMapped<'a>>(v: &T, mismatch: Option<String>, outside_map: Option<String>) -> ViewInfo {
    ViewInfo { offset: v.map_offset(), len: v.map_len(), mismatch, outside_map }
}

fn opt_mismatch<T>(got: Option<&T>, want_some: bool) -> Option<String> {
    if got.is_some() != want_some {
        Some(format!("MappedOption is {}, expected {}", if got.is_some() { "Some" } else { "None" }, if want_some { "Some" } else { "None" }))
    } else {
        None
    }
}

/// Creates the view type matching the descriptor at `offset`; `None` if the type has no view.
pub fn mapped_view(d: &Desc, map: &MemoryMap, offset: usize) -> Option<io::Result<ViewInfo>> {
    Some(match d {
        Desc::VecU64(v) => MappedSlice::<u64>::new(map, offset).map(|s| {
            let out = outside(map, s.as_ref());
            if out.is_some() { return info(&s, None, out); }
            let mm = if s.as_ref() != v.as_slice() || s.len() != v.len() || s.is_empty() != v.is_empty() || (0..v.len()).any(|i| s[i] != v[i]) { Some("MappedSlice<u64> content differs".to_string()) } else { None };
            info(&s, mm, None)
        }),
        Desc::VecUsize(v) => MappedSlice::<usize>::new(map, offset).map(|s| {
            let out = outside(map, s.as_ref());
            if out.is_some() { return info(&s, None, out); }
            let mm = if s.as_ref() != v.as_slice() { Some("MappedSlice<usize> content differs".to_string()) } else { None };
            info(&s, mm, None)
        }),
        Desc::VecPair(v) => MappedSlice::<(u64, u64)>::new(map, offset).map(|s| {
            let out = outside(map, s.as_ref());
            if out.is_some() { return info(&s, None, out); }
            let mm = if s.as_ref() != v.as_slice() || s.len() != v.len() { Some("MappedSlice<(u64,u64)> content differs".to_string()) } else { None };
            info(&s, mm, None)
        }),
        Desc::Bytes(v) => MappedBytes::new(map, offset).map(|s| {
            let out = outside(map, s.as_ref());
            if out.is_some() { return info(&s, None, out); }
            let mm = if s.as_ref() != v.as_slice() || s.len() != v.len() || s.is_empty() != v.is_empty() || (0..v.len()).any(|i| s[i] != v[i]) { Some("MappedBytes content differs".to_string()) } else { None };
            info(&s, mm, None)
        }),
        Desc::Str(v) => MappedStr::new(map, offset).map(|s| {
            let out = outside(map, s.as_ref().as_bytes());
            if out.is_some() { return info(&s, None, out); }
            let mm = if s.as_ref() != v.as_str() || s.len() != v.len() || s.is_empty() != v.is_empty() { Some("MappedStr content differs".to_string()) } else { None };
            info(&s, mm, None)
        }),
        Desc::OptVecU64(o) => MappedOption::<MappedSlice<u64>>::new(map, offset).map(|s| {
            let out = s.as_ref().and_then(|v| outside(map, v.as_ref()));
            if out.is_some() { return info(&s, None, out); }
            let mut mm = opt_mismatch(s.as_ref(), o.is_some());
            if let (Some(view), Some(v)) = (s.as_ref(), o.as_ref()) {
                if view.as_ref() != v.as_slice() {
                    mm = Some("MappedOption<MappedSlice<u64>> content differs".to_string());
                }
            }
            if s.is_some() != o.is_some() || s.is_none() != o.is_none() {
                mm = Some("MappedOption::is_some/is_none wrong".to_string());
            }
            info(&s, mm, None)
        }),
        Desc::OptBytes(o) => MappedOption::<MappedBytes>::new(map, offset).map(|s| {
            let out = s.as_ref().and_then(|v| outside(map, v.as_ref()));
            if out.is_some() { return info(&s, None, out); }
            let mut mm = opt_mismatch(s.as_ref(), o.is_some());
            if let (Some(view), Some(v)) = (s.as_ref(), o.as_ref()) {
                if view.as_ref() != v.as_slice() {
                    mm = Some("MappedOption<MappedBytes> content differs".to_string());
                }
            }
            info(&s, mm, None)
        }),
        Desc::OptStr(o) => MappedOption::<MappedStr>::new(map, offset).map(|s| {
            let out = s.as_ref().and_then(|v| outside(map, v.as_ref().as_bytes()));
            if out.is_some() { return info(&s, None, out); }
            let mut mm = opt_mismatch(s.as_ref(), o.is_some());
            if let (Some(view), Some(v)) = (s.as_ref(), o.as_ref()) {
                if view.as_ref() != v.as_str() {
                    mm = Some("MappedOption<MappedStr> content differs".to_string());
                }
            }
            info(&s, mm, None)
        }),
        Desc::Raw(b) | Desc::RawHist(b) => RawVectorMapper::new(map, offset).map(|s| {
            let words: &MappedSlice<u64> = s.as_ref();
            let out = outside(map, words.as_ref());
            if out.is_some() { return info(&s, None, out); }
            let mm = raw_view_mismatch(&s, &b.model());
            info(&s, mm, None)
        }),
        Desc::Int { width, values } | Desc::IntHist { width, values } => IntVectorMapper::new(map, offset).map(|s| {
            let raw: &RawVectorMapper = s.as_ref();
            let words: &MappedSlice<u64> = raw.as_ref();
            let out = outside(map, words.as_ref());
            if out.is_some() { return info(&s, None, out); }
            let mm = int_view_mismatch(&s, *width, values);
            info(&s, mm, None)
        }),
        Desc::OptInt(o) => MappedOption::<IntVectorMapper>::new(map, offset).map(|s| {
            let out = s.as_ref().and_then(|v| {
                let raw: &RawVectorMapper = v.as_ref();
                let words: &MappedSlice<u64> = raw.as_ref();
                outside(map, words.as_ref())
            });
            if out.is_some() { return info(&s, None, out); }
            let mut mm = opt_mismatch(s.as_ref(), o.is_some());
            if let (Some(view), Some((w, v))) = (s.as_ref(), o.as_ref()) {
                mm = int_view_mismatch(view, *w, v);
            }
            info(&s, mm, None)
        }),
        _ => return None,
    })
}
