//! The RawVector history model (initial states, action alphabet, transition on the real vector + reference,
//! observable-state oracle), shared by the C05 driver and the stateright cross-check (bin c05x).

use crate::to_bytes;
use serde::{Deserialize, Serialize};
use simple_sds::raw_vector::{AccessRaw, PopRaw, PushRaw, RawVector};
use std::collections::HashSet;

#[derive(Serialize, Deserialize, Clone, Debug, Hash, PartialEq, Eq)]
pub enum RInit {
    New,
    WithCapacity(usize),
    WithLen(usize, bool),
}

#[derive(Serialize, Deserialize, Clone, Debug, Hash, PartialEq, Eq)]
pub enum RAct {
    PushBit(bool),
    PushInt(u64, usize),
    PopBit,
    PopInt(usize),
    SetBit(usize, bool),
    SetInt(usize, u64, usize),
    Resize(usize, bool),
    Clear,
    Reserve(usize),
    /// Replace the vector by its complement (`complement()` returns a new vector).
    Complement,
}

pub fn r_init(i: &RInit) -> (RawVector, Vec<bool>) {
    match *i {
        RInit::New => (RawVector::new(), vec![]),
        RInit::WithCapacity(c) => (RawVector::with_capacity(c), vec![]),
        RInit::WithLen(n, b) => (RawVector::with_len(n, b), vec![b; n]),
    }
}

pub fn bits_of(v: u64, w: usize) -> Vec<bool> {
    (0..w).map(|k| (v >> k) & 1 == 1).collect()
}

pub fn int_of(b: &[bool]) -> u64 {
    b.iter().enumerate().fold(0u64, |acc, (k, &x)| acc | ((x as u64) << k))
}

pub fn r_actions(len: usize, values: &[u64], thorough: bool) -> Vec<RAct> {
    let mut a = vec![RAct::PushBit(false), RAct::PushBit(true), RAct::PopBit, RAct::Clear, RAct::Reserve(100), RAct::Complement];
    let fill = 64 - len % 64; // 1..=64: exactly fills the current word
    let mut widths = vec![1usize, 7, 63, 64, fill];
    if fill < 64 {
        widths.push(fill + 1);
    }
    widths.sort_unstable();
    widths.dedup();
    for &w in &widths {
        for &v in values {
            a.push(RAct::PushInt(v, w));
        }
    }
    let mut pops = vec![1usize, 7, 64, len % 64, len + 1];
    pops.retain(|&w| w <= 64);
    pops.sort_unstable();
    pops.dedup();
    for w in pops {
        a.push(RAct::PopInt(w));
    }
    if len > 0 {
        let mut idx = vec![0, len - 1, len / 2];
        idx.sort_unstable();
        idx.dedup();
        for i in idx {
            a.push(RAct::SetBit(i, false));
            a.push(RAct::SetBit(i, true));
        }
    }
    for &w in &[7usize, 64] {
        if len >= w {
            let mut offs = vec![0, len - w];
            if len >= 61 + w {
                offs.push(61); // straddles the first word boundary for both widths
            }
            offs.sort_unstable();
            offs.dedup();
            for off in offs {
                a.push(RAct::SetInt(off, !0, w));
                a.push(RAct::SetInt(off, 0, w));
                if thorough {
                    a.push(RAct::SetInt(off, 0xA5A5_A5A5_A5A5_A5A5, w));
                }
            }
        }
    }
    let mut sizes = vec![0usize, len + 1, (len / 64 + 1) * 64, len + 65];
    if len > 0 {
        sizes.push(len - 1);
    }
    if len >= 64 {
        sizes.push(len - 64);
    }
    sizes.sort_unstable();
    sizes.dedup();
    for n in sizes {
        if n != len {
            a.push(RAct::Resize(n, false));
            a.push(RAct::Resize(n, true));
        }
    }
    a
}

/// Applies the action to the real vector and to the reference; returns a description of a
/// return-value mismatch, if any.
pub fn r_apply(v: &mut RawVector, r: &mut Vec<bool>, act: &RAct) -> Option<String> {
    match *act {
        RAct::PushBit(b) => {
            v.push_bit(b);
            r.push(b);
            None
        }
        RAct::PushInt(x, w) => {
            unsafe { v.push_int(x, w) };
            r.extend(bits_of(x, w));
            None
        }
        RAct::PopBit => {
            let got = v.pop_bit();
            let want = r.pop();
            (got != want).then(|| format!("pop_bit returned {:?}, expected {:?}", got, want))
        }
        RAct::PopInt(w) => {
            let got = unsafe { v.pop_int(w) };
            let want = if r.len() >= w {
                let tail = r.split_off(r.len() - w);
                Some(int_of(&tail))
            } else {
                None
            };
            (got != want).then(|| format!("pop_int({}) returned {:?}, expected {:?}", w, got, want))
        }
        RAct::SetBit(i, b) => {
            v.set_bit(i, b);
            r[i] = b;
            None
        }
        RAct::SetInt(off, x, w) => {
            unsafe { v.set_int(off, x, w) };
            for (k, b) in bits_of(x, w).into_iter().enumerate() {
                r[off + k] = b;
            }
            None
        }
        RAct::Resize(n, b) => {
            v.resize(n, b);
            r.resize(n, b);
            None
        }
        RAct::Clear => {
            v.clear();
            r.clear();
            None
        }
        RAct::Reserve(n) => {
            v.reserve(n);
            None
        }
        RAct::Complement => {
            *v = v.complement();
            for b in r.iter_mut() {
                *b = !*b;
            }
            None
        }
    }
}

pub fn r_fresh(r: &[bool]) -> RawVector {
    let mut f = RawVector::new();
    for &b in r {
        f.push_bit(b);
    }
    f
}

/// The full observable-state oracle for a raw vector.
pub fn r_observe(v: &RawVector, r: &[bool]) -> Option<String> {
    if v.len() != r.len() || v.is_empty() != r.is_empty() {
        return Some(format!("len() = {}, expected {}", v.len(), r.len()));
    }
    for (i, &b) in r.iter().enumerate() {
        if v.bit(i) != b {
            return Some(format!("bit({}) = {}, expected {}", i, v.bit(i), b));
        }
    }
    let n = r.len();
    for &(off, w) in &[(0usize, 64usize), (0, 7), (n.saturating_sub(64), 64), (n.saturating_sub(7), 7), (61, 7), (1, 64), (n.saturating_sub(1), 1), (0, 0)] {
        if off + w <= n {
            let got = unsafe { v.int(off, w) };
            let want = int_of(&r[off..off + w]);
            if got != want {
                return Some(format!("int({}, {}) = {:#x}, expected {:#x}", off, w, got, want));
            }
        }
    }
    let ones = r.iter().filter(|&&b| b).count();
    if v.count_ones() != ones {
        return Some(format!("count_ones() = {}, expected {} (stale bits beyond the length?)", v.count_ones(), ones));
    }
    let fresh = r_fresh(r);
    if *v != fresh {
        return Some(format!("vector != freshly built vector with the same content (words {:x?} vs {:x?})", AsRef::<[u64]>::as_ref(v), AsRef::<[u64]>::as_ref(&fresh)));
    }
    if to_bytes(v) != to_bytes(&fresh) {
        return Some("serialized bytes differ from those of a freshly built vector with the same content".to_string());
    }
    if v.capacity() < v.len() {
        return Some(format!("capacity() = {} < len() = {}", v.capacity(), v.len()));
    }
    None
}


/// Plain breadth-first count of distinct states (len, words) and transitions up to `depth`; the same
/// traversal the C05 driver performs, without the reporting.
pub fn bfs_count(init: &RInit, depth: usize, values: &[u64], thorough: bool) -> (usize, usize) {
    let (v0, r0) = r_init(init);
    let mut seen: HashSet<(usize, Vec<u64>)> = HashSet::new();
    seen.insert((v0.len(), AsRef::<[u64]>::as_ref(&v0).to_vec()));
    let mut frontier = vec![(v0, r0)];
    let mut transitions = 0usize;
    for d in 0..depth {
        let mut next = Vec::new();
        for (v, r) in &frontier {
            for act in r_actions(r.len(), values, thorough) {
                let mut v2 = v.clone();
                let mut r2 = r.clone();
                transitions += 1;
                let _ = r_apply(&mut v2, &mut r2, &act);
                if seen.insert((v2.len(), AsRef::<[u64]>::as_ref(&v2).to_vec())) && d + 1 < depth {
                    next.push((v2, r2));
                }
            }
        }
        frontier = next;
    }
    (seen.len(), transitions)
}
