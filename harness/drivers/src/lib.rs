//! Code shared by the per-property drivers: building library structures from reference models and
//! checking the full query interface of a bitvector against the model.

pub use serde_json::{json, Value};
pub use vcore::ctx::{guard, Ctx, Tier};
pub use vcore::model::{boundary_args, Bits, Multiset};

use simple_sds::bit_vector::BitVector;
use simple_sds::ops::{PredSucc, Rank, Select, SelectZero};
use simple_sds::raw_vector::{AccessRaw, RawVector};
use simple_sds::rl_vector::{RLBuilder, RLVector};
use simple_sds::serialize::Serialize;
use simple_sds::sparse_vector::{SparseBuilder, SparseVector};
use std::convert::TryFrom;

pub mod catalogue;
pub mod rawmodel;
pub mod wmcheck;

/// Bounds-monitor hit counter of the library build (0 when the hooks are compiled out).
pub fn hook_hits() -> u64 {
    #[cfg(simple_sds_verif)]
    {
        simple_sds::bits::verif::bounds_checks()
    }
    #[cfg(not(simple_sds_verif))]
    {
        0
    }
}

/// Which `bits::select` path this build compiled.
pub fn select_path() -> &'static str {
    if cfg!(all(target_arch = "x86_64", target_feature = "bmi2")) {
        "bmi2-pdep"
    } else {
        "portable-table"
    }
}

pub fn raw_from_model(m: &Bits) -> RawVector {
    let mut raw = RawVector::with_len(m.len as usize, false);
    for &(s, l) in &m.runs {
        let (mut p, end) = (s as usize, (s + l) as usize);
        while p < end {
            if p % 64 == 0 && end - p >= 64 {
                unsafe { raw.set_int(p, !0u64, 64) };
                p += 64;
            } else {
                raw.set_bit(p, true);
                p += 1;
            }
        }
    }
    raw
}

/// All support structures enabled.
pub fn enable_all(bv: &mut BitVector) {
    bv.enable_rank();
    bv.enable_select();
    bv.enable_select_zero();
    bv.enable_pred_succ();
}

pub fn bv_from_model(m: &Bits) -> BitVector {
    let mut bv = BitVector::from(raw_from_model(m));
    enable_all(&mut bv);
    bv
}

/// Sparse vector through the checked builder, one position at a time.
pub fn sparse_from_model(m: &Bits) -> Result<SparseVector, String> {
    let mut b = SparseBuilder::new(m.len as usize, m.ones() as usize).map_err(|e| e.to_string())?;
    for &(s, l) in &m.runs {
        for p in s..s + l {
            b.try_set(p as usize).map_err(|e| e.to_string())?;
        }
    }
    SparseVector::try_from(b).map_err(|e| e.to_string())
}

/// Run-length vector through the checked builder, one run at a time.
pub fn rl_from_model(m: &Bits) -> Result<RLVector, String> {
    let mut b = RLBuilder::new();
    for &(s, l) in &m.runs {
        b.try_set(s as usize, l as usize)?;
    }
    b.set_len(m.len as usize);
    Ok(RLVector::from(b))
}

pub fn to_bytes<T: Serialize>(x: &T) -> Vec<u8> {
    let mut v = Vec::new();
    x.serialize(&mut v).expect("serializing into a Vec cannot fail");
    v
}

pub fn from_bytes<T: Serialize>(b: &[u8]) -> std::io::Result<T> {
    let mut r: &[u8] = b;
    T::load(&mut r)
}

/// The arguments at which a bitvector is queried.
#[derive(Clone, Debug, Default)]
pub struct Queries {
    /// Positions for get / rank / rank_zero / predecessor / successor.
    pub positions: Vec<usize>,
    /// Ranks for select / select_iter.
    pub ranks: Vec<usize>,
    /// Ranks for select_zero / select_zero_iter.
    pub zero_ranks: Vec<usize>,
    /// Walk the three full iterators (set bits, unset bits, all bits).
    pub full_iters: bool,
    /// Multisets: skip the zero-side queries.
    pub skip_zero_side: bool,
}

impl Queries {
    /// Every position and rank, plus the out-of-range boundary arguments A(.).
    pub fn exhaustive(m: &Bits) -> Queries {
        let len = m.len as usize;
        let mut positions: Vec<usize> = (0..=len).collect();
        positions.extend(boundary_args(len));
        positions.sort_unstable();
        positions.dedup();
        let ones = m.ones() as usize;
        let mut ranks: Vec<usize> = (0..=ones).collect();
        ranks.extend(boundary_args(ones));
        ranks.sort_unstable();
        ranks.dedup();
        let zeros = m.zeros() as usize;
        let mut zero_ranks: Vec<usize> = (0..=zeros).collect();
        zero_ranks.extend(boundary_args(zeros));
        zero_ranks.sort_unstable();
        zero_ranks.dedup();
        Queries { positions, ranks, zero_ranks, full_iters: true, skip_zero_side: false }
    }

    /// Positions around run edges and the given structural boundaries; ranks around run boundaries
    /// and multiples of `rank_steps`; all with +-1 and A(.).
    pub fn edges(m: &Bits, pos_boundaries: &[u128], rank_steps: &[u128], cap: usize, full_iters: bool) -> Queries {
        let len = m.len;
        let mut extra: Vec<u128> = Vec::new();
        for &b in pos_boundaries {
            if b == 0 {
                continue;
            }
            let mut k = b;
            let mut n = 0;
            while k <= len && n < cap {
                extra.push(k);
                k += b;
                n += 1;
            }
            // ... and the last multiple below the end
            if len >= b {
                extra.push(len / b * b);
            }
        }
        let mut positions: Vec<usize> = m.edge_positions(&extra, cap).into_iter().map(|p| p as usize).collect();
        positions.extend(boundary_args(len as usize));
        // A uniform grid over the universe and the midpoints of the longest gaps and runs: structures that
        // index by value / divisor (sample indexes, buckets) have regimes that no run edge falls into.
        let grid = cap.max(64) as u128;
        for i in 0..=grid {
            positions.push((len / grid * i + (len % grid) * i / grid) as usize);
        }
        {
            let mut spans: Vec<(u128, u128)> = Vec::new(); // (length, midpoint)
            let mut prev = 0u128;
            for &(s, l) in &m.runs {
                spans.push((s - prev, prev + (s - prev) / 2));
                spans.push((l, s + l / 2));
                prev = s + l;
            }
            spans.push((len - prev, prev + (len - prev) / 2));
            spans.sort_unstable_by(|a, b| b.cmp(a));
            for &(l, mid) in spans.iter().take(8) {
                if l > 2 {
                    positions.push(mid as usize);
                    positions.push((mid - l / 4) as usize);
                    positions.push((mid + l / 4) as usize);
                }
            }
        }
        positions.sort_unstable();
        positions.dedup();

        let ones = m.ones();
        let zeros = m.zeros();
        let around = |total: u128, marks: Vec<u128>| -> Vec<usize> {
            let mut v: Vec<usize> = Vec::new();
            // uniform grid over the rank space
            for i in 0..=grid {
                v.push((total / grid * i + (total % grid) * i / grid) as usize);
            }
            for x in marks {
                for d in [x.wrapping_sub(1), x, x + 1] {
                    if d <= total + 1 {
                        v.push(d as usize);
                    }
                }
            }
            v.extend(boundary_args(total as usize));
            v.sort_unstable();
            v.dedup();
            v
        };
        let step = (m.runs.len() / cap.max(1)).max(1);
        let mut rmarks: Vec<u128> = Vec::new();
        let mut zmarks: Vec<u128> = Vec::new();
        let mut c = 0u128;
        for (i, &(s, l)) in m.runs.iter().enumerate() {
            if i % step == 0 || i + 2 >= m.runs.len() {
                rmarks.push(c);
                rmarks.push(c + l);
                zmarks.push(s - c);
            }
            c += l;
        }
        for &b in rank_steps {
            if b == 0 {
                continue;
            }
            for total_marks in [(&mut rmarks, ones), (&mut zmarks, zeros)] {
                let (marks, total) = total_marks;
                let mut k = b;
                let mut n = 0;
                while k <= total && n < cap {
                    marks.push(k);
                    k += b;
                    n += 1;
                }
                if total >= b {
                    marks.push(total / b * b);
                }
            }
        }
        Queries { positions, ranks: around(ones, rmarks), zero_ranks: around(zeros, zmarks), full_iters, skip_zero_side: false }
    }
}

/// Class of an argument relative to a bound; part of violation signatures.
#[inline]
pub fn arg_class(x: usize, bound: usize) -> &'static str {
    if x == usize::MAX {
        "max"
    } else if x < bound {
        "in"
    } else if x == bound {
        "eq"
    } else {
        "gt"
    }
}

/// Checks the complete query interface of a bitvector (`BitVec + Rank + Select + SelectZero +
/// PredSucc`) against the model. A macro rather than a generic function because the traits are
/// lifetime-parameterised.
///
/// `$case` is a closure `|| -> Value` describing the structure (evaluated only on failure).
#[macro_export]
macro_rules! check_bitvec {
    ($ctx:expr, $bv:expr, $m:expr, $name:expr, $q:expr, $case:expr) => {{
        #[allow(unused_imports)]
        use simple_sds::ops::{BitVec, PredSucc, Rank, Select, SelectZero};
        use $crate::{arg_class, guard, json};
        let ctx: &mut $crate::Ctx = $ctx;
        let bv = $bv;
        let m: &$crate::Bits = $m;
        let q: &$crate::Queries = $q;
        let case = $case;
        let name: &str = $name;
        let len = m.len as usize;
        let ones = m.ones() as usize;
        let zeros = m.zeros() as usize;
        let u = |x: Option<u128>| x.map(|v| v as usize);
        let uu = |x: Option<(u128, u128)>| x.map(|(a, b)| (a as usize, b as usize));

        ctx.expect(|| format!("{}.len", name), guard(|| bv.len()), &len, || json!({"bv": case(), "call": "len()"}));
        ctx.expect(|| format!("{}.count_ones", name), guard(|| bv.count_ones()), &ones, || json!({"bv": case(), "call": "count_ones()"}));
        if !q.skip_zero_side {
            ctx.expect(|| format!("{}.count_zeros", name), guard(|| bv.count_zeros()), &zeros, || json!({"bv": case(), "call": "count_zeros()"}));
        }
        ctx.expect(|| format!("{}.is_empty", name), guard(|| bv.is_empty()), &(len == 0), || json!({"bv": case(), "call": "is_empty()"}));

        for &i in &q.positions {
            let cls = arg_class(i, len);
            if i < len {
                let want = m.get(i as u128);
                ctx.expect(|| format!("{}.get[{}]", name, cls), guard(|| bv.get(i)), &want, || json!({"bv": case(), "call": format!("get({})", i)}));
            }
            let want = m.rank(i as u128) as usize;
            ctx.expect(|| format!("{}.rank[{}]", name, cls), guard(|| bv.rank(i)), &want, || json!({"bv": case(), "call": format!("rank({})", i)}));
            if i <= len && !q.skip_zero_side {
                let want = i - want;
                ctx.expect(|| format!("{}.rank_zero[{}]", name, cls), guard(|| bv.rank_zero(i)), &want, || json!({"bv": case(), "call": format!("rank_zero({})", i)}));
            }
            // predecessor / successor: first item, then the iterator continues with consecutive ranks.
            let want_p = uu(m.pred(i as u128));
            let got = guard(|| {
                let mut it = bv.predecessor(i);
                let first = it.next();
                let second = it.next();
                (first, second)
            });
            let want_p2 = want_p.and_then(|(r, _)| u(m.select(r as u128 + 1)).map(|p| (r + 1, p)));
            ctx.expect(|| format!("{}.predecessor[{}]", name, cls), got, &(want_p, want_p2), || json!({"bv": case(), "call": format!("predecessor({}) -> next, next", i)}));
            let want_s = uu(m.succ(i as u128));
            let want_s2 = want_s.and_then(|(r, _)| u(m.select(r as u128 + 1)).map(|p| (r + 1, p)));
            let got = guard(|| {
                let mut it = bv.successor(i);
                let first = it.next();
                let second = it.next();
                (first, second)
            });
            ctx.expect(|| format!("{}.successor[{}]", name, cls), got, &(want_s, want_s2), || json!({"bv": case(), "call": format!("successor({}) -> next, next", i)}));
        }

        for &r in &q.ranks {
            let cls = arg_class(r, ones);
            let want = u(m.select(r as u128));
            ctx.expect(|| format!("{}.select[{}]", name, cls), guard(|| bv.select(r)), &want, || json!({"bv": case(), "call": format!("select({})", r)}));
            let want_it = (want.map(|p| (r, p)), want.and_then(|_| u(m.select(r as u128 + 1)).map(|p| (r + 1, p))), if want.is_some() { ones - r } else { 0 });
            let got = guard(|| {
                let mut it = bv.select_iter(r);
                let n = it.len();
                let first = it.next();
                let second = it.next();
                (first, second, n)
            });
            ctx.expect(|| format!("{}.select_iter[{}]", name, cls), got, &want_it, || json!({"bv": case(), "call": format!("select_iter({}) -> (next, next, len)", r)}));
        }

        if !q.skip_zero_side {
            for &r in &q.zero_ranks {
                let cls = arg_class(r, zeros);
                let want = u(m.select_zero(r as u128));
                ctx.expect(|| format!("{}.select_zero[{}]", name, cls), guard(|| bv.select_zero(r)), &want, || json!({"bv": case(), "call": format!("select_zero({})", r)}));
                let want_it = (want.map(|p| (r, p)), want.and_then(|_| u(m.select_zero(r as u128 + 1)).map(|p| (r + 1, p))), if want.is_some() { zeros - r } else { 0 });
                let got = guard(|| {
                    let mut it = bv.select_zero_iter(r);
                    let n = it.len();
                    let first = it.next();
                    let second = it.next();
                    (first, second, n)
                });
                ctx.expect(|| format!("{}.select_zero_iter[{}]", name, cls), got, &want_it, || json!({"bv": case(), "call": format!("select_zero_iter({}) -> (next, next, len)", r)}));
            }
        }

        if q.full_iters {
            // Set bits, in order, with ranks.
            let got = guard(|| {
                let mut bad: Option<String> = None;
                let mut n = 0usize;
                let mut it = bv.one_iter();
                let advertised = it.len();
                let mut run_iter = m.runs.iter();
                let mut cur = run_iter.next().copied();
                let mut off = 0u128;
                for (r, p) in &mut it {
                    let want = cur.map(|(s, _)| (s + off) as usize);
                    if want != Some(p) || r != n {
                        bad = Some(format!("item {} is ({}, {}), expected ({}, {:?})", n, r, p, n, want));
                        break;
                    }
                    n += 1;
                    off += 1;
                    if let Some((_, l)) = cur {
                        if off == l {
                            cur = run_iter.next().copied();
                            off = 0;
                        }
                    }
                }
                if bad.is_none() && (n != ones || advertised != ones) {
                    bad = Some(format!("yielded {} items, advertised {}, expected {}", n, advertised, ones));
                }
                if bad.is_none() && it.next().is_some() {
                    bad = Some("yields an item after None".to_string());
                }
                bad
            });
            ctx.expect(|| format!("{}.one_iter", name), got, &None, || json!({"bv": case(), "call": "one_iter() to the end"}));

            if !q.skip_zero_side {
                let got = guard(|| {
                    let mut bad: Option<String> = None;
                    let mut n = 0usize;
                    let mut it = bv.zero_iter();
                    let advertised = it.len();
                    // Expected zero positions generated on the fly from the runs.
                    let mut next_zero = 0u128;
                    let mut k = 0usize;
                    let mut skip = |z: &mut u128, k: &mut usize| {
                        while *k < m.runs.len() && m.runs[*k].0 == *z {
                            *z = m.runs[*k].0 + m.runs[*k].1;
                            *k += 1;
                        }
                    };
                    skip(&mut next_zero, &mut k);
                    for (r, p) in &mut it {
                        if next_zero >= m.len || p as u128 != next_zero || r != n {
                            bad = Some(format!("item {} is ({}, {}), expected ({}, {})", n, r, p, n, next_zero));
                            break;
                        }
                        n += 1;
                        next_zero += 1;
                        skip(&mut next_zero, &mut k);
                    }
                    if bad.is_none() && (n != zeros || advertised != zeros) {
                        bad = Some(format!("yielded {} items, advertised {}, expected {}", n, advertised, zeros));
                    }
                    if bad.is_none() && it.next().is_some() {
                        bad = Some("yields an item after None".to_string());
                    }
                    bad
                });
                ctx.expect(|| format!("{}.zero_iter", name), got, &None, || json!({"bv": case(), "call": "zero_iter() to the end"}));
            }

            let got = guard(|| {
                let mut bad: Option<String> = None;
                let mut it = bv.iter();
                let advertised = it.len();
                let mut i = 0u128;
                let mut k = 0usize; // first run with end > i
                for b in &mut it {
                    while k < m.runs.len() && m.runs[k].0 + m.runs[k].1 <= i {
                        k += 1;
                    }
                    let want = k < m.runs.len() && m.runs[k].0 <= i;
                    if i >= m.len || b != want {
                        bad = Some(format!("bit {} is {}, expected {}", i, b, want));
                        break;
                    }
                    i += 1;
                }
                if bad.is_none() && (i != m.len || advertised != len) {
                    bad = Some(format!("yielded {} bits, advertised {}, expected {}", i, advertised, len));
                }
                if bad.is_none() && it.next().is_some() {
                    bad = Some("yields an item after None".to_string());
                }
                bad
            });
            ctx.expect(|| format!("{}.iter", name), got, &None, || json!({"bv": case(), "call": "iter() to the end"}));
        }
    }};
}
