//! C20 — temporary file names are unique within a process under concurrent use.
//! E-sched: loom explores every interleaving (no preemption bound) of T threads x K calls of the
//! real `serialize::temp_file_name`, whose counter is a loom atomic in this build (hook H2).

use simple_sds::serialize::temp_file_name;
use std::collections::HashSet;
use std::sync::atomic::{AtomicU64, Ordering};
use std::sync::Mutex;

static EXECUTIONS: AtomicU64 = AtomicU64::new(0);
static OUTCOMES: Mutex<Option<HashSet<Vec<Vec<String>>>>> = Mutex::new(None);

/// Name parts: plain, dotted (an extension-like suffix must not swallow the unique part), empty, with separators.
const NAME_PARTS: [&str; 8] = ["shared", "x.bin", "a.b.c", "", "with space", "trailing.", "nnnnnnnnnnnnnnnnnnnnnnnnnnnnnnnnnnnnnnnnnnnnnnnnnnnnnnnnnnnnnnnnnnnnnnnnnnnnnnnnnnnnnnnnnnnnnnnnnnnnnnnnnnnnnnnnnnnnnnnnnnnnnnnnnnnnnnnnnnnnnnnnnnnnnnnnnnnnnnnnnnnnnnnnnnnnnnnnnnnnnnnnnnnnnnnnnnnnnnnnnnnnnnnnnnnnnnnnnnnnnnnnnnnnnnnnnnnnnnnnnnnnnnnnnn", "mmmmmmmmmmmmmmmmmmmmmmmmmmmmmmmmmmmmmmmmmmmmmmmmmmmmmmmmmmmmmmmmmmmmmmmmmmmmmmmmmmmmmmmmmmmmmmmmmmmmmmmmmmmmmmmmmmmmmmmmmmmmmmmmmmmmmmmmmmmmmmmmmmmmmmmmmmmmmmmmmmmmmmmmmmmmmmmmmmmmmmmmmmmmmmmmmmmmmmmmmmmmmmmmmmmmmmmmmmmmmmmmmmmmmmmmmmmmmmmmmmmmmmmmmmmmmmmmmmmmmmmmmmmmmmmmmmmmmmmmmmmmmmmmmmmmmmmmmmmm"];

fn run(threads: usize, calls: usize, shared_name: bool) {
    for (k, name) in NAME_PARTS.iter().enumerate() {
        // The interleaving space does not depend on the name; explore it fully for the first two names
        // and for the remaining names in the smallest configuration only.
        if k < 2 || (threads == 2 && calls == 1) {
            run_named(threads, calls, shared_name, name);
        }
    }
}

fn run_named(threads: usize, calls: usize, shared_name: bool, name: &'static str) {
    EXECUTIONS.store(0, Ordering::SeqCst);
    *OUTCOMES.lock().unwrap() = Some(HashSet::new());
    let mut builder = loom::model::Builder::new();
    // Unbounded by default; the coordinator sets a preemption bound only when the unbounded exploration of this
    // configuration does not finish within its budget (and reports the bound it completed).
    builder.preemption_bound = std::env::var("C20_PREEMPTION_BOUND").ok().and_then(|v| v.parse().ok());
    if let Ok(v) = std::env::var("C20_MAX_BRANCHES") {
        builder.max_branches = v.parse().unwrap();
    }
    builder.check(move || {
        EXECUTIONS.fetch_add(1, Ordering::SeqCst);
        let handles: Vec<_> = (0..threads)
            .map(|t| {
                loom::thread::spawn(move || {
                    let part = if shared_name { name.to_string() } else { format!("{}{}", name, t) };
                    (0..calls).map(|_| (part.clone(), temp_file_name(&part))).collect::<Vec<_>>()
                })
            })
            .collect();
        let mut all: Vec<String> = Vec::new();
        let mut per_thread: Vec<Vec<String>> = Vec::new();
        for h in handles {
            let names = h.join().unwrap();
            let mut mine = Vec::new();
            for (part, path) in names {
                let s = path.to_string_lossy().to_string();
                let file = path.file_name().unwrap().to_string_lossy().to_string();
                assert!(file.contains(&part), "C20-VIOLATION path {} does not contain the name part {}", s, part);
                mine.push(file.rsplit('_').next().unwrap().to_string());
                all.push(s);
            }
            per_thread.push(mine);
        }
        let distinct: HashSet<&String> = all.iter().collect();
        assert!(distinct.len() == all.len(), "C20-VIOLATION duplicate temporary file name among {:?}", all);
        OUTCOMES.lock().unwrap().as_mut().unwrap().insert(per_thread);
    });
    let outcomes = OUTCOMES.lock().unwrap().as_ref().unwrap().len();
    println!("C20-RESULT threads={} calls={} shared_name={} name_part={:?} executions={} distinct_outcomes={}", threads, calls, shared_name, name, EXECUTIONS.load(Ordering::SeqCst), outcomes);
}

/// The file system as an environment answer: files already exist under the names the first counter values
/// produce (a leftover of an earlier process with the same pid). Names must still be pairwise distinct.
#[test]
fn c20_2x2_preexisting_files() {
    let name = "preexisting";
    let mut created = Vec::new();
    for k in 0..3 {
        let mut p = std::env::temp_dir();
        p.push(format!("{}_{}_{}", name, std::process::id(), k));
        if std::fs::write(&p, b"x").is_ok() {
            created.push(p);
        }
    }
    let r = std::panic::catch_unwind(|| run_named(2, 2, true, "preexisting"));
    for p in created {
        let _ = std::fs::remove_file(p);
    }
    if let Err(e) = r {
        std::panic::resume_unwind(e);
    }
}

#[test]
fn c20_2x1() { run(2, 1, true); }
#[test]
fn c20_2x2() { run(2, 2, true); }
#[test]
fn c20_2x2_distinct_names() { run(2, 2, false); }
#[test]
fn c20_3x1() { run(3, 1, true); }
#[test]
fn c20_3x2() { run(3, 2, true); }
#[test]
fn c20_2x3() { run(2, 3, true); }
#[test]
#[ignore]
fn c20_3x3_thorough() { run(3, 3, true); }
#[test]
#[ignore]
fn c20_4x1_thorough() { run(4, 1, true); }
// 4 threads x 2 calls is 8.5 million executions (about 14 minutes single-threaded): thorough tier only.
#[test]
#[ignore]
fn c20_4x2_thorough() { run_named(4, 2, false, "shared"); }
