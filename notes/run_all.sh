#!/bin/bash
# Runs every registered check of one tier in turn and records exit codes and wall times.
tier=${1:-quick}
cd /verif
out=/verif/notes/run_all.$tier.log
: > $out
for p in C01 C02 C03 C04 C05 C06 C07 C09 C10 C11 C12 C13 C14 C15 C16 C17 C18 C19 C20 C08; do
  t0=$(date +%s)
  ./check $p $tier > /verif/notes/.last_$p.$tier.out 2>&1
  rc=$?
  echo "$p $tier exit=$rc wall=$(( $(date +%s) - t0 ))s $(tail -1 /verif/notes/.last_$p.$tier.out | cut -c1-200)" >> $out
done
echo ALLDONE >> $out
