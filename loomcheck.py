"""C20: loom exploration of temp_file_name (filled in later)."""
def build(chk):
    return True
