"""C20: loom exploration of the real temp_file_name (E-sched), plus the labelled free-running corroboration."""
import json
import os
import re
import shutil
import subprocess
import tempfile
import time

TESTS_QUICK = ["c20_2x2_preexisting_files", "c20_2x1", "c20_2x2", "c20_2x2_distinct_names", "c20_2x3", "c20_3x1", "c20_3x2"]
TESTS_THOROUGH = TESTS_QUICK + ["c20_3x3_thorough", "c20_4x1_thorough", "c20_4x2_thorough"]


def _env(chk):
    env = chk.base_env()
    env["RUSTFLAGS"] = "--cfg simple_sds_verif --cfg simple_sds_verif_loom"
    env["CARGO_TARGET_DIR"] = os.path.join(chk.TARGET, "loom")
    return env


def _dir(chk):
    return os.path.join(chk.HARNESS, "loomshadow")


def build(chk):
    t0 = time.time()
    p = subprocess.run(["cargo", "test", "--offline", "-q", "--release", "--test", "c20", "--no-run"], cwd=_dir(chk), env=_env(chk), stdout=subprocess.PIPE, stderr=subprocess.STDOUT, text=True)
    if p.returncode != 0:
        chk.log("BUILD FAILED (loom):\n" + "\n".join(l for l in p.stdout.splitlines() if not l.startswith("warning"))[-3000:])
        return False
    chk.log("built loom test in %.1fs" % (time.time() - t0))
    return True


def _run_test(chk, name, timeout, bound=None):
    cmd = ["cargo", "test", "--offline", "-q", "--release", "--test", "c20", "--", "--include-ignored", "--exact", name, "--nocapture", "--test-threads=1"]
    env = _env(chk)
    if bound is not None:
        env["C20_PREEMPTION_BOUND"] = str(bound)
    try:
        p = subprocess.run(cmd, cwd=_dir(chk), env=env, stdout=subprocess.PIPE, stderr=subprocess.STDOUT, text=True, timeout=timeout)
        return p.returncode, p.stdout
    except subprocess.TimeoutExpired as e:
        return None, (e.stdout or b"").decode("utf-8", "replace") if isinstance(e.stdout, bytes) else (e.stdout or "")


def _run_budgeted(chk, name, budget):
    """Unbounded DPOR first; if the interleaving space of this configuration does not fit into the budget (an
    implementation with more synchronisation steps per call), iterate the preemption bound downwards: 3, then 2.
    Returns (rc, output, completed_bound) with completed_bound None = unbounded."""
    rc, out = _run_test(chk, name, budget)
    if rc is not None:
        return rc, out, None
    for bound in (3, 2):
        rc, out = _run_test(chk, name, budget, bound)
        if rc is not None:
            return rc, out, bound
    return None, out, 2


def _parse(out):
    res = []
    for m in re.finditer(r"C20-RESULT threads=(\d+) calls=(\d+) shared_name=(\w+) name_part=(\"[^\n]*?\") executions=(\d+) distinct_outcomes=(\d+)", out):
        res.append(dict(threads=int(m.group(1)), calls=int(m.group(2)), shared_name=m.group(3) == "true", name_part=json.loads(m.group(4)), executions=int(m.group(5)), distinct_outcomes=int(m.group(6))))
    return res


def run(prop, cfg, tier, seed, chk):
    t0 = time.time()
    if not build(chk) or not chk.build_all(["rel"], ["c20"]):
        chk.log("machinery failure: build failed")
        return 2
    tests = TESTS_THOROUGH if tier == "thorough" else TESTS_QUICK
    configs, violations, errors = [], [], []
    # loom explores one test single-threaded; the tests are independent processes and run in parallel.
    import concurrent.futures
    with concurrent.futures.ThreadPoolExecutor(max_workers=8) as ex:
        budget = 3 * 3600 if tier == "thorough" else 300
        outcomes = list(ex.map(lambda t: _run_budgeted(chk, t, budget), tests))
    bounded = {}
    for t, (rc, out, bound) in zip(tests, outcomes):
        parsed = _parse(out)
        configs.extend(dict(test=t, preemption_bound=bound, **p) for p in parsed)
        if bound is not None:
            bounded[t] = bound
        if rc is None:
            errors.append("loom test %s hit the wall cap even with preemption bound 2" % t)
        elif rc != 0:
            m = re.search(r"C20-VIOLATION[^\n]*", out)
            if m:
                # Determinism: the same exploration must fail the same way again.
                rc2, out2 = _run_test(chk, t, 3600, bound)
                m2 = re.search(r"C20-VIOLATION[^\n]*", out2)
                kind = "duplicate" if "duplicate" in m.group(0) else "name-part"
                if rc2 != 0 and m2 and (("duplicate" in m2.group(0)) == (kind == "duplicate")):
                    violations.append(dict(sig="temp_file_name[loom %s]/%s" % (t, kind), case={"loom_test": t}, detail={"observed": m.group(0)[:600]}, build="loom", driver="loom", monitor=False))
                else:
                    errors.append("loom test %s failed but did not fail the same way on the second run" % t)
            else:
                errors.append("loom test %s failed without a C20-VIOLATION message: %s" % (t, out[-600:]))
        elif not parsed:
            errors.append("loom test %s produced no result line" % t)
    # Free-running corroboration + deterministic sequential checks on the normal build.
    scratch_root = tempfile.mkdtemp(prefix="ssds-verif.")
    try:
        results, v2, e2 = chk.explore(prop, cfg, tier, seed, ["c20"], ["rel"], False, scratch_root)
        per_build, counters, sets, samples = chk.merge_done(results)
        new2, known2, nondet = chk.decide(prop, v2, scratch_root)
    finally:
        shutil.rmtree(scratch_root, ignore_errors=True)
    errors += e2
    # A free-running duplicate cannot be replayed deterministically; it is reported as observed (labelled exception in DESIGN.md §2.5).
    free = [v for v in v2 if "free-running" in v["sig"]]
    by_sig = {}
    for v in free:
        by_sig.setdefault(v["sig"], v)
    new = list(new2) + [v for s, v in by_sig.items() if s not in [n["sig"] for n in new2]]
    errors += [e for e in nondet if "free-running" not in e]
    findings, _ = chk.load_known()
    known = list(known2)
    for v in violations:
        hit = [f for f in findings if f["property"] == prop and chk.sig_matches(f["sig"], v["sig"])]
        if hit:
            known.append((v, hit[0]))
        else:
            new.append(v)
    executions = sum(c["executions"] for c in configs)
    coverage = dict(
        states=executions,
        transitions=sum(c["executions"] * c["threads"] * c["calls"] for c in configs),
        traces_validated_against_impl=executions,
        samples=[dict(test=c["test"], threads=c["threads"], calls=c["calls"], name_part=c["name_part"], executions=c["executions"], distinct_outcomes=c["distinct_outcomes"]) for c in configs[:12]],
        explanation="states = complete executions (interleavings) explored by loom, no preemption bound unless preemption_bounded_configurations names one (used only when the unbounded space of a configuration did not fit into the budget: every execution with at most that many preemptions was explored); every execution runs the real temp_file_name and checks pairwise-distinct paths that contain the caller's name part; "
                    "transitions = atomic counter operations executed; distinct_outcomes = distinct assignments of counter values to calls observed (equals the multinomial (T*K)!/(K!^T) when every outcome was reached)",
        evaluations=executions + sum(pb["evals"] for pb in per_build.values()),
        distinct_nontrivial=sum(c["distinct_outcomes"] for c in configs),
        rule=cfg["rule"],
        exhaustive=not errors and not bounded,
        preemption_bounded_configurations=bounded,
        loom_configurations=configs,
        free_running_corroboration=dict(label="SAMPLING - not a deciding step", per_build=per_build, counters=counters),
        repo=chk.repo_state(),
        machinery_errors=errors,
        violation_signatures=sorted(set(v["sig"] for v in violations + v2)),
    )
    chk.write_evidence(prop, cfg, tier, seed, coverage, time.time() - t0, len(new) + len(known), cfg.get("assumptions", []))
    for v, f in known:
        print("KNOWN-FINDING: property=%s %s (sig=%s)" % (prop, f["text"], v["sig"]))
    rc = 0
    for v in new:
        path = chk.write_replay(prop, v.get("driver", "loom"), v)
        print("VIOLATION property=%s replay=%s" % (prop, path))
        chk.log("  sig=%s detail=%s" % (v["sig"], json.dumps(v.get("detail"))[:400]))
        rc = 1
    print("%s %s: loom executions=%d over %d configurations, wall=%.1fs new_violations=%d known=%d" % (prop, tier, executions, len(configs), time.time() - t0, len(new), len(known)))
    if errors:
        for e in errors:
            chk.log("machinery: " + e)
        if rc == 0:
            return 2
    return rc


def replay(prop, cfg, doc, chk):
    if doc.get("driver") != "loom":
        # free-running / sequential case of the normal build
        if not chk.build_all(["rel"], ["c20"]):
            return 2
        scratch_root = tempfile.mkdtemp(prefix="ssds-verif.")
        try:
            r = chk.replay_case(prop, "c20", "rel", doc["case"], False, scratch_root)
        finally:
            shutil.rmtree(scratch_root, ignore_errors=True)
        sigs = chk.outcome_sigs(r)
        print("recorded: %s; observed: %s" % (doc["sig"], sorted(sigs)))
        if doc["sig"] in sigs:
            print("VIOLATION property=%s replay=(replayed)" % prop)
            return 1
        return 0
    if not build(chk):
        return 2
    t = doc["case"]["loom_test"]
    rc, out = _run_test(chk, t, 3600)
    print("replaying loom exploration %s" % t)
    m = re.search(r"C20-VIOLATION[^\n]*", out)
    if rc != 0 and m:
        print("observed: " + m.group(0)[:600])
        print("VIOLATION property=%s replay=(replayed)" % prop)
        return 1
    print("no violation: " + "; ".join(l for l in out.splitlines() if "C20-RESULT" in l)[:600])
    return 0
